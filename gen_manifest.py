#!/usr/bin/env python3
"""Writes MANIFEST.json from the table below (one place to keep it valid)."""
import json, subprocess

HOOK_COMMITS = ["f1f1242", "12326ae", "5c6d32d"]

CHECKS = {
 "C01": ("5.1", "Generated source models (typed expression grammar) compiled by rooc and judged at exact rational test points: source-feasible iff extendable over the auxiliaries, decided by an exact DFS + bound-propagation + Fourier-Motzkin oracle. Finds defects in rule interplay that hand-written matrices miss; never proves absence.",
         "Trusted: the harness's own rational oracle (self-tested against enumeration at start-up) and reference evaluator; rows are re-checked with a 1e-9 relative slack before a cut-off is reported; test points are a finite sample of each model's assignments.",
         "property-based testing: generated models + exact rational extension oracle (metamorphic src<=>lin)"),
 "C02": ("5.2", "Same generated models with min/max objectives: at every source-feasible test point (incl. every corner of the declared box) an extension must exist and the best linear objective over all auxiliary extensions (exact optimisation) must equal the source objective; directed objectives for pruned min/max operands, tiny factors and quotients under non-distributing operators.",
         "Trusted: exact oracle and reference evaluator; 1e-6 relative comparison; finite sample of points per model.",
         "property-based testing: generated models + exact optimisation over auxiliaries vs reference evaluator"),
 "C03": ("5.3", "Whole source texts printed from generated typed models with random spelling are solved through the one-shot entry point; the answer is judged by the harness's exact interpreter: exhaustive enumeration for all-discrete models (both directions), certificate + sampled comparison for models with reals.",
         "Trusted: reference interpreter and printer (written from the documentation, cross-checked by C09's reference parser); 1e-6 tolerance on solver arithmetic; for reals the 'no better assignment' direction is decided on a finite test set.",
         "property-based testing: generated programs + exact reference interpreter / exhaustive enumeration"),
 "C04": ("5.4", "Generated linear/MILP models through the public LinearModel API, every built-in solver entry point run (the MILP one also under a zero time limit and deterministic node limits), every returned solution re-checked against the model (certificate check).",
         "Trusted: f64 re-evaluation of rows with the 1e-6 scaled tolerance; solver calls that never return are observed through a helper thread with a 5 s budget.",
         "property-based testing: generated linear models + solution certificate checking"),
 "C05": ("5.5", "Generated small exactly-decidable linear/MILP models; every solver's verdict and optimal value compared with an exact rational simplex / branch-and-bound oracle.",
         "Trusted: the exact oracle (cross-checked against enumeration and Fourier-Motzkin on start-up). Known findings of the microlp dependency are matched by instance class + answer.",
         "property-based testing: differential against an exact rational LP/MILP oracle"),
 "C09": ("5.9", "Exhaustive enumeration of all parenthesis-free operator sequences up to 4 (thorough 5) operands, of all blank-free sequences of symbolic operators up to 3 (thorough 4) operands, plus random trees printed with random spelling; rooc's parse is compared by value at all small assignments with an independent precedence-climbing parser.",
         "Trusted: the reference tokenizer/parser (written from the documented table; self-checked against the harness's own printer on every generated tree).",
         "exhaustive enumeration + property-based testing: differential against an independent reference parser"),
 "C10": ("5.10", "Exhaustive enumeration of all expression trees up to 4 (thorough 5) nodes plus random trees: simplify / flatten compared with the original by exact evaluation at all small well-sorted assignments, idempotence, surviving divisions; generated twin models with re-spelled constants must be accepted alike and denote the same feasible set and objective.",
         "Trusted: exact reference evaluator; assignments are restricted to the documented domain of the logic operators (0/1 operands); constant folding inside rooc is compared with 1e-12 relative tolerance, and an assignment at which a logic operand of the rewritten tree is within 1e-9 of 0 or 1 without being 0 or 1 is not compared (decided by f64 rounding of a folded constant).",
         "exhaustive enumeration + property-based testing: metamorphic (rewrite / re-spelling must not change meaning)"),
 "C11": ("5.11", "Generated full source texts (random spelling, where-constants, comments, all declaration forms), untyped operator trees, the exhaustive depth-2 nesting table, literal programs with iterations/graphs/escaped names/every builtin, and C06's data-driven generator (driven and unrolled texts, computed subscripts): format() must succeed, re-parse, be idempotent and transform to the same Model.",
         "Trusted: JSON comparison of rooc's own Model (spans stripped).",
         "property-based testing: round trip (format then parse) + idempotence"),
 "C12": ("5.12", "Compiled models from the generators (non-affine operators, named rows, tightened/infinite domains, coefficients 1e-9..1e9): Model::to_string() and LinearModel::to_string() must parse, type-check and re-compile to the same linear model; render/compile/render must be a fixpoint. Differences are classified as the recorded known finding only when an exact MILP oracle proves both models equivalent.",
         "Trusted: exact MILP oracle for the equivalence classification; comparison is modulo trivially-true constant rows, duplicate rows and declared-but-unused variables (stated reading, DESIGN.md section 10); restricted to models as the text front-end produces them.",
         "property-based testing: round trip (render then compile) + exact-oracle equivalence"),
 "C13": ("5.13", "Generated continuous models converted to standard form (read through guarded accessors); exact rational oracle checks non-negative right-hand sides, forward and backward correspondence of feasible points with equal objective, equal verdict and optimum.",
         "Trusted: exact LP oracle; the variable correspondence is by name (v, or $pv - $mv), no row/column layout is assumed.",
         "property-based testing: generated models + exact rational feasibility correspondence"),
 "C14": ("5.14", "Generated small models (degenerate vertices, ties, redundant rows, two-phase starts, a fully degenerate class, a class with one badly scaled column) and the classical cycling instances (Beale, Kuhn, Chvatal; alone and embedded among cost-free columns) are stepped pivot by pivot; after every step the invariants (equivalent system, unit basis columns, non-negative basic solution satisfying the initial equalities, monotone objective, consistent current value) are checked, the stop verdict is compared with the exact optimum of the original model, the driver must stay within its limit.",
         "Trusted: f64 invariant checks with 1e-6/1e-7 tolerances; stop verdicts are judged against the exact optimum of the original model (the canonical tableau carries f64 noise); covers the pivot sequences the implementation produces.",
         "property-based testing: invariant checking over generated pivot histories + exact oracle at the stop"),
 "C15": ("5.15", "Generated MILPs (small general ones, 15-28 item knapsacks, knapsacks rescaled to 1e4 / 1e6 / 1e-2 / 1e-3 objective magnitudes, near-tied pick-k-of-n selections) crossed with time limits, MIP gaps (valid and invalid) and deterministic node limits through the guarded hook, via the function and the builder: every returned solution must be feasible and self-consistent, Optimal only within the gap of the exact optimum (rational B&B / dynamic programming), invalid options rejected.",
         "Trusted: exact optimum oracles; the oracle does not depend on where the clock stopped the search, so timing only affects which runs are interrupted.",
         "property-based testing: generated models x option settings + exact optimum oracle + certificate check"),
 "C17": ("5.17", "Generated linear models (all domain kinds, tiny (down to the smallest subnormal)/large (up to 1e30, beyond the 64-bit integers)/negative-zero numbers, strict < and > rows, offsets, named/unnamed rows incl. names equal to generated ones) exported with to_lp_format() and read back by an independent CPLEX-LP reader; everything is compared field by field with exact f64 equality.",
         "Trusted: the harness's LP reader, written from the format description.",
         "property-based testing: round trip through an independent LP-format reader"),
 "C20": ("5.20", "Generated small LPs (half of them with the objective or one row rescaled by a power of two, a quarter with a looser parallel copy of a row) kept when the exact oracle certifies the optimal value differentiable in every right-hand side; Clarabel's shadow prices (function and builder doors) must equal the exact slopes obtained by re-solving with perturbed right-hand sides.",
         "Trusted: exact LP oracle for the slopes; 1e-5 tolerance on the interior-point duals relative to the larger of the slope and the unit objective / row; degenerate cases are skipped and counted.",
         "property-based testing: generated LPs + exact perturbation (metamorphic) oracle"),
 "C16": ("5.16", "One generated model realised through ModelBuilder (operators, helpers, permuted call order, unused variable), source text (constants inline / where / API), PipeRunner and RoocSolver: linear models identical, verdicts and optimal values equal, builder read-back (var_value, numeric_value, eval, value) equals the reference semantics; the builder expression is assembled through the most specific operator overload for every operand shape (Var / Expr / f64 / i32 / bool on either side, by value or reference); the constraint!/expr! macros are covered by a generated table of all 590 operator sequences of up to 3 operators compared with the reference parser.",
         "Trusted: reference evaluator and parser; macros are covered by enumeration at build time, not by run-time generation.",
         "property-based testing: differential between entry points + enumerated macro table"),
 "C07": ("5.7", "Generated models (incl. propagation chains, cycles exhausting the step limit, contradictions, inexact coefficients, coefficients from 1e-9 to 1e9, strict rows); derived and published ranges must contain every source-feasible test point, derived enclosures must contain exact expression values at box points.",
         "Trusted: reference evaluator; hook verif_hooks::analyze_bounds is a read-only wrapper; containment uses a 1e-11 relative allowance (stated weakening: rooc folds constants in rounded f64 before the analysis).",
         "property-based testing: generated models + exact evaluation against derived intervals (via read-only hook)"),
 "C08": ("5.8", "Generated models with edge features (aux-like names, duplicate / suffix-like constraint names, infinite constants, unused declarations); every compiled model checked against the well-formedness invariant list, MissingFiniteBounds errors checked for content, and a non-finite-number rejection of a source without infinite constants counted as a missing bound turned into a constant.",
         "Trusted: invariant checker written from the property text; guessed big-M constants are caught by C01's far test points (2^21, 2^34).",
         "property-based testing: generated edge-case models + invariant checking"),
 "C06": ("5.6", "Generated data-driven programs (sums/products/min/max/avg/any/all over ranges, arrays, matrices, graphs, enumerate, zip, set functions, tuple destructuring, indexed declarations, nested and dependent iterations, ranges that start empty under sum and prod, computed subscripts) paired with the harness's own unrolled version; both must compile to the same linear model with the expected instance names.",
         "Trusted: the harness's reference unroller (written from the documentation); comparison of rooc's own LinearModel values.",
         "property-based testing: differential against a reference unrolling of data-driven constructs"),
 "C18": ("5.18", "Inputs up to 4 KiB from grammar-derived programs, token mutations of them (numeric extremes in literal, index and range positions, depth-64 nesting of every bracket kind closed / half closed / unclosed, deletions, duplications, swaps), byte noise and bracket soup are run through every public stage and every error rendering inside a worker process with an address-space limit and a watchdog; a panic, an abort, a stack overflow or silence is a violation. Thorough adds a coverage-guided libFuzzer campaign (cargo-fuzz target over the same stage runner, seed corpus of 132 programs) whose crashes and timeouts become replay files.",
         "Trusted: termination is judged against a 20 s budget; rooc is built with overflow checks; two recorded findings are recognised through the guarded range observer at the call site that writes ranges out.",
         "property-based testing + coverage-guided fuzzing (libFuzzer): generated and mutated inputs in a sandboxed worker, crash and hang oracle"),
 "C19": ("5.19", "Generated well-typed programs and up to three type-breaking mutations of them (operands, indexes, bounds, iterators and arguments replaced by values of every kind; every builtin under both spellings with 0-3 arguments of every kind; sign, negation and logic over every kind; wider destructuring patterns): whatever type_check accepts must transform without a type-class error.",
         "Trusted: the classification of transform errors into type-kind errors and data errors (written from the error enum).",
         "property-based testing: generated programs + mutation, checker/transformer agreement"),
}

NOT_YET = {}

def main():
    props = [json.loads(l)["id"] for l in open("/verif/properties.jsonl")]
    checks = []
    for pid in props:
        if pid in CHECKS:
            ref, text, note, tech = CHECKS[pid]
            checks.append({
                "property_id": pid,
                "quick_cmd": f"./check {pid} quick",
                "thorough_cmd": f"./check {pid} thorough",
                "evidence_file": f"/verif/evidence/{pid}.json",
                "replay_cmd_template": f"./check {pid} --replay {{path}}",
                "engine": "rv",
                "level_claimed": {"category": "exploration", "text": text, "design_ref": f"DESIGN.md section {ref}"},
                "level_note": note,
                "technique": tech,
            })
    na = [{"property_id": p, "reason": NOT_YET.get(p, "check not built yet in this round (planned, see DESIGN.md section 9); not out of reach of the technique")}
          for p in props if p not in CHECKS]
    manifest = {
        "version": 1,
        "setup_cmd": "./check --build",
        "hooks": {
            "guard": "cargo feature verif_hooks (packages/rooc/Cargo.toml)",
            "enable": "the harness depends on rooc with features = [\"verif_hooks\"] (harness/Cargo.toml); ./check builds it from /repo's working tree",
            "baseline_off_cmd": "cd /repo/packages/rooc && cargo test --workspace --no-fail-fast --offline",
            "source_commits": HOOK_COMMITS,
            "add_only": True,
        },
        "engines": [
            {"name": "rv", "path": "/verif/harness", "serves_properties": sorted(CHECKS), "kind_free_text": "Rust binary: proptest strategies driven by a seeded 16-thread runner, exact rational oracles, shrinking, replay files, known-findings matcher"},
            {"name": "fuzz-total", "path": "/verif/fuzz", "serves_properties": ["C18"], "kind_free_text": "cargo-fuzz / libFuzzer target over harness/src/props/stages.rs (all compiler stages + error rendering), range guard through the verif_hooks range observer, run by ./check C18 thorough via fuzz/run.sh"},
        ],
        "checks": checks,
        "not_applicable": na,
        "notes": "Every check: exit 0 = held on everything explored (KNOWN-FINDING lines allowed), 1 = VIOLATION line, 2 = harness failure / inconclusive. VERIF_SEED selects the seed (default 0). Known and fixed findings: /verif/known_findings.json.",
    }
    json.dump(manifest, open("/verif/MANIFEST.json", "w"), indent=1)
    print("checks:", len(checks), "not_applicable:", len(na))

main()
