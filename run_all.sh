#!/bin/bash
# usage: run_all.sh [quick|thorough]  — every registered check in MANIFEST order, summary at the end
cd /verif
tier=${1:-quick}
./check --build >/dev/null 2>&1 || { echo "build failed"; exit 2; }
rc=0
for id in $(jq -r '.checks[].property_id' MANIFEST.json); do
  st=$(date +%s)
  out=$(./check "$id" "$tier" 2>&1); code=$?
  echo "$id exit=$code $(( $(date +%s) - st ))s $(echo "$out" | grep -c '^KNOWN-FINDING') known | $(echo "$out" | tail -1 | cut -c1-160)"
  [ $code -ne 0 ] && { rc=1; echo "$out" | grep -E "VIOLATION|signature" | head -6; }
done
exit $rc
