#!/usr/bin/env python3
"""Rewrites section 11 of DESIGN.md (between the FINDINGS markers) from known_findings.json."""
import json
k = json.load(open('/verif/known_findings.json'))
def cell(t):
    return t.replace('|', '&#124;').replace('\n', ' ')
out = ["## 11. Findings on the unchanged tree (generated from known_findings.json)", "",
       "Genuine defects only: each was reproduced against the real API from a shrunk replay before it",
       "was listed. *Repaired* entries are `fix:` commits in /repo (one root cause each, the unedited",
       "test suite passes after each); they suppress nothing. *Recorded* entries are matched by the",
       "stated signature and printed as `KNOWN-FINDING` lines.", "",
       "### 11.1 Repaired", "", "| property | commit | what failed |", "|---|---|---|"]
for e in k:
    if e["kind"] == "fixed":
        out.append(f"| {e['property']} | `{e['commit']}` | {cell(e['what'])} |")
out += ["", "### 11.2 Recorded (not repaired)", "", "| property | signature | what fails, why it is not repaired |", "|---|---|---|"]
for e in k:
    if e["kind"] == "known":
        out.append(f"| {e['property']} | `{e['signature']}` | {cell(e['what'])} |")
p = '/verif/DESIGN.md'
s = open(p).read()
a = s.index('<!-- FINDINGS:BEGIN -->') + len('<!-- FINDINGS:BEGIN -->')
b = s.index('<!-- FINDINGS:END -->')
open(p, 'w').write(s[:a] + "\n" + "\n".join(out) + "\n" + s[b:])
print("fixed:", sum(e['kind'] == 'fixed' for e in k), "known:", sum(e['kind'] == 'known' for e in k))
