#!/bin/bash
# usage: fuzz/run.sh <runs> [seed]    — libFuzzer campaign of the C18 target from the seed corpus
# Scratch corpus under fuzz/work (not committed). Exit 0 = no crash, 1 = artifact saved, 2 = build failure.
set -u
runs=${1:-200000}; seed=${2:-${VERIF_SEED:-1}}
[ "$seed" = 0 ] && seed=1000003
cd /verif/harness || exit 2
work=/verif/fuzz/work; rm -rf "$work"; mkdir -p "$work/corpus" "$work/artifacts"
cat > "$work/dict" <<'D'
"min" "max" "solve" "s.t." "where" "define" "let" "as" "for" "in" "sum(" "prod(" "avg(" "abs {" "min {" "max {" "all {" "any {"
D
tr ' ' '\n' < "$work/dict" | grep -v '^$' > "$work/dict2"; mv "$work/dict2" "$work/dict"
CARGO_NET_OFFLINE=true cargo +nightly fuzz build --fuzz-dir /verif/fuzz total >"$work/build.log" 2>&1 || { tail -20 "$work/build.log"; exit 2; }
CARGO_NET_OFFLINE=true cargo +nightly fuzz run --fuzz-dir /verif/fuzz total "$work/corpus" /verif/corpus/seed -- \
  -runs="$runs" -seed="$seed" -max_len=4096 -len_control=0 -timeout=20 -rss_limit_mb=4096 -artifact_prefix="$work/artifacts/" -print_final_stats=1 >"$work/run.log" 2>&1
code=$?
grep -E "stat::|Done|SUMMARY|C18 violation" "$work/run.log" | tail -12
ls "$work/artifacts" 2>/dev/null | head
[ $code -eq 0 ] && exit 0
exit 1
