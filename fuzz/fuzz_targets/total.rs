//! libFuzzer target for C18: the bytes are the source text (lossy UTF-8, at most 4 KiB) and go
//! through the same stage runner as the proptest-driven check (`harness/src/props/stages.rs`).
//! The oracle is in the target: a panic in any stage that is not the range guard below aborts.
#![no_main]
use libfuzzer_sys::fuzz_target;
use std::sync::atomic::{AtomicU64, Ordering::SeqCst};

#[path = "../../harness/src/props/stages.rs"]
mod stages;

/// Elements of ranges written out for the current input. The two recorded C18 findings (eager
/// expansion of ranges of user size, recursion per element of a chain) are excluded by
/// construction: past this many elements the observer unwinds out of the compiler.
static RANGE_ELEMENTS: AtomicU64 = AtomicU64::new(0);
const RANGE_GUARD: u64 = 3_000;
const GUARD_MESSAGE: &str = "VERIF-RANGE-GUARD";

fn observe_range(from: i64, to: i64, inclusive: bool) {
    let len = if to >= from { (to as i128 - from as i128 + inclusive as i128) as u128 } else { 0 };
    let len = len.min(u64::MAX as u128 / 4) as u64;
    let total = RANGE_ELEMENTS.fetch_add(len, SeqCst).saturating_add(len);
    if total > RANGE_GUARD {
        panic!("{}", GUARD_MESSAGE);
    }
}

fuzz_target!(|data: &[u8]| {
    if data.len() > 4096 {
        return;
    }
    // libfuzzer-sys aborts from its panic hook; the stage runner needs to see the panic instead
    static INIT: std::sync::Once = std::sync::Once::new();
    INIT.call_once(|| {
        std::panic::set_hook(Box::new(|_| {}));
        rooc::verif_hooks::set_range_observer(Some(observe_range));
    });
    RANGE_ELEMENTS.store(0, SeqCst);
    let src = String::from_utf8_lossy(data);
    let report = stages::run_stages(&src);
    if let Some(stage) = report.panicked_in {
        let msg = report.panic_message.unwrap_or_default();
        if msg != GUARD_MESSAGE {
            eprintln!("C18 violation: panic in stage {stage}: {msg}\ninput:\n{src}");
            std::process::abort();
        }
    }
});
