//! `rv <property-id> [--tier quick|thorough] [--seed N] [--replay file]`
#![allow(dead_code)]
mod gen;
mod oracle;
mod props;
mod runner;

use runner::{RunArgs, Tier};

fn main() {
    let args: Vec<String> = std::env::args().collect();
    if args.len() < 2 {
        eprintln!("usage: rv <id|selftest> [--tier quick|thorough] [--seed N] [--replay file]");
        std::process::exit(2);
    }
    let id = args[1].as_str();
    if id == "lin" {
        // debugging aid: compile a source file and print the linear model (no solver is called)
        let src = std::fs::read_to_string(&args[2]).unwrap();
        match rooc::RoocParser::new(src).parse_and_transform(vec![], &indexmap::IndexMap::new()) {
            Ok(m) => match rooc::Linearizer::linearize(m) {
                Ok(l) => println!("{l}"),
                Err(e) => println!("linearization error: {e}"),
            },
            Err(e) => println!("error: {e}"),
        }
        return;
    }
    if id == "stages" {
        // debugging aid: run every stage on a source file in-process
        let src = std::fs::read_to_string(&args[2]).unwrap();
        let t = std::time::Instant::now();
        let r = props::stages::run_stages(&src);
        println!("{r:?} in {:?}", t.elapsed());
        match rooc::RoocParser::new(src.clone()).format() {
            Ok(f) => {
                let again = rooc::RoocParser::new(f.clone()).parse().map(|_| "parses".to_string()).unwrap_or_else(|e| format!("DOES NOT PARSE: {}", e.to_string_from_source(&f)));
                println!("format ({again}):\n{f}\n--");
            }
            Err(e) => println!("format error: {e}"),
        }
        match rooc::RoocParser::new(src.clone()).type_check(&vec![], &indexmap::IndexMap::new()) {
            Ok(_) => println!("type_check: accepted"),
            Err(e) => println!("type_check: rejected: {e}"),
        }
        match rooc::RoocParser::new(src.clone()).parse_and_transform(vec![], &indexmap::IndexMap::new()) {
            Ok(m) => {
                println!("model:\n{m}");
                match rooc::Linearizer::linearize(m) {
                    Ok(l) => println!("linear model:\n{l}"),
                    Err(e) => println!("linearization error: {e}"),
                }
            }
            Err(e) => println!("error: {e}"),
        }
        return;
    }
    if id == "dump-directed" {
        // debugging aid: write the directed cases of C02 as replay files into a directory
        std::fs::create_dir_all(&args[2]).unwrap();
        for (i, c) in props::c02::directed_cases().into_iter().enumerate() {
            std::fs::write(format!("{}/c02_{i:02}.json", args[2]), serde_json::to_string_pretty(&serde_json::json!({"case": c})).unwrap()).unwrap();
        }
        return;
    }
    if id == "dump-corpus" {
        props::c18::dump_corpus(&args[2]);
        return;
    }
    if id == "c18-import" {
        // turn a libFuzzer artifact (raw bytes) into a replay file of the C18 check
        let bytes = std::fs::read(&args[2]).unwrap();
        let case = props::c18::Case { base: props::c18::Base::Noise(bytes), muts: vec![] };
        let text = case.text();
        let root = std::env::var("VERIF_ROOT").unwrap_or_else(|_| "/verif".into());
        let dir = format!("{root}/replays/C18");
        std::fs::create_dir_all(&dir).unwrap();
        let path = format!("{dir}/fuzz-{:016x}.json", runner::fnv(&text));
        let doc = serde_json::json!({"property": "C18", "signature": "found-by-libfuzzer-target", "detail": text.chars().take(1500).collect::<String>(), "case": case});
        std::fs::write(&path, serde_json::to_string_pretty(&doc).unwrap()).unwrap();
        println!("VIOLATION property=C18 replay={path}");
        return;
    }
    if id == "c18-worker" {
        props::c18::worker_main();
        return;
    }
    let mut tier = match std::env::var("VERIF_TIER").as_deref() {
        Ok("thorough") => Tier::Thorough,
        _ => Tier::Quick,
    };
    let mut seed: u64 = std::env::var("VERIF_SEED")
        .ok()
        .and_then(|s| s.trim().parse::<i64>().ok())
        .map(|v| v as u64)
        .unwrap_or(0);
    let mut replay = None;
    let mut i = 2;
    while i < args.len() {
        match args[i].as_str() {
            "--tier" => {
                i += 1;
                tier = match args.get(i).map(|s| s.as_str()) {
                    Some("thorough") => Tier::Thorough,
                    _ => Tier::Quick,
                };
            }
            "--seed" => {
                i += 1;
                seed = args.get(i).and_then(|s| s.parse::<i64>().ok()).map(|v| v as u64).unwrap_or(0);
            }
            "--replay" => {
                i += 1;
                replay = args.get(i).map(std::path::PathBuf::from);
            }
            other => {
                eprintln!("unknown argument {other}");
                std::process::exit(2);
            }
        }
        i += 1;
    }
    if id == "show-model" {
        // debugging aid: print the source text and what rooc compiles it to
        let path = replay.clone().expect("--replay file");
        let text = std::fs::read_to_string(path).unwrap();
        let v: serde_json::Value = serde_json::from_str(&text).unwrap();
        let case: gen::model::ModelCase = serde_json::from_value(v["case"].clone()).unwrap();
        println!("{}\n--", case.text());
        match props::lincheck::compile(&case) {
            Ok(m) => println!("{}\n{:?}", m, m),
            Err(e) => println!("error: {e}"),
        }
        return;
    }
    let run_args = RunArgs { tier, seed, replay };
    if id == "selftest" {
        match oracle::rat::self_test() {
            Ok(n) => {
                println!("oracle self-test: {n} checks ok");
                std::process::exit(0);
            }
            Err(e) => {
                eprintln!("oracle self-test FAILED: {e}");
                std::process::exit(2);
            }
        }
    }
    // the exact oracle is validated against brute force before any verdict is trusted
    if let Err(e) = oracle::rat::self_test() {
        eprintln!("harness error: oracle self-test failed: {e}");
        std::process::exit(2);
    }
    let code = props::dispatch(id, &run_args);
    std::process::exit(code);
}
