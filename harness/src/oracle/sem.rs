//! Reference semantics of the expression language, independent of rooc.
//!
//! `SExp` is the harness's own AST. It is evaluated in exact rationals, converted to rooc `Exp`
//! values through rooc's public constructors, to builder `Expr`s, and printed as source text.

use crate::oracle::rat::{big, Big};
use num_traits::{One, Signed, Zero};
use serde::{Deserialize, Serialize};
use std::collections::BTreeMap;

#[derive(Clone, Debug, Serialize, Deserialize, PartialEq)]
pub enum SExp {
    Num(f64),
    Var(String),
    Neg(Box<SExp>),
    Add(Box<SExp>, Box<SExp>),
    Sub(Box<SExp>, Box<SExp>),
    Mul(Box<SExp>, Box<SExp>),
    Div(Box<SExp>, Box<SExp>),
    Abs(Box<SExp>),
    Min(Vec<SExp>),
    Max(Vec<SExp>),
    Not(Box<SExp>),
    And(Vec<SExp>),
    Or(Vec<SExp>),
    Xor(Box<SExp>, Box<SExp>),
    Implies(Box<SExp>, Box<SExp>),
    Iff(Box<SExp>, Box<SExp>),
}

pub type Env = BTreeMap<String, Big>;

fn truth(v: &Big) -> bool {
    !v.is_zero()
}
fn num(b: bool) -> Big {
    if b {
        Big::one()
    } else {
        Big::zero()
    }
}

impl SExp {
    pub fn b(self) -> Box<SExp> {
        Box::new(self)
    }
    pub fn var(s: &str) -> SExp {
        SExp::Var(s.to_string())
    }

    /// Exact value; `None` when a division by zero (or an undefined variable / empty min/max) occurs.
    /// Logic operators read their operands as "non-zero is true" and produce 0/1.
    pub fn eval(&self, env: &Env) -> Option<Big> {
        Some(match self {
            SExp::Num(v) => {
                if !v.is_finite() {
                    return None;
                }
                big(*v)
            }
            // the language's infinite constants have no rational value
            SExp::Var(n) if n == "Infinity" || n == "MinusInfinity" => return None,
            SExp::Var(n) => env.get(n)?.clone(),
            SExp::Neg(e) => -e.eval(env)?,
            SExp::Add(a, b) => a.eval(env)? + b.eval(env)?,
            SExp::Sub(a, b) => a.eval(env)? - b.eval(env)?,
            SExp::Mul(a, b) => a.eval(env)? * b.eval(env)?,
            SExp::Div(a, b) => {
                let d = b.eval(env)?;
                if d.is_zero() {
                    return None;
                }
                a.eval(env)? / d
            }
            SExp::Abs(e) => e.eval(env)?.abs(),
            SExp::Min(es) => {
                let mut it = es.iter();
                let mut m = it.next()?.eval(env)?;
                for e in it {
                    let v = e.eval(env)?;
                    if v < m {
                        m = v;
                    }
                }
                m
            }
            SExp::Max(es) => {
                let mut it = es.iter();
                let mut m = it.next()?.eval(env)?;
                for e in it {
                    let v = e.eval(env)?;
                    if v > m {
                        m = v;
                    }
                }
                m
            }
            SExp::Not(e) => num(!truth(&e.eval(env)?)),
            SExp::And(es) => {
                let mut all = true;
                for e in es {
                    all &= truth(&e.eval(env)?);
                }
                num(all)
            }
            SExp::Or(es) => {
                let mut any = false;
                for e in es {
                    any |= truth(&e.eval(env)?);
                }
                num(any)
            }
            SExp::Xor(a, b) => num(truth(&a.eval(env)?) != truth(&b.eval(env)?)),
            SExp::Implies(a, b) => num(!truth(&a.eval(env)?) || truth(&b.eval(env)?)),
            SExp::Iff(a, b) => num(truth(&a.eval(env)?) == truth(&b.eval(env)?)),
        })
    }

    pub fn vars(&self, out: &mut Vec<String>) {
        match self {
            SExp::Num(_) => {}
            SExp::Var(n) => {
                if !out.contains(n) && n != "Infinity" && n != "MinusInfinity" {
                    out.push(n.clone())
                }
            }
            SExp::Neg(e) | SExp::Abs(e) | SExp::Not(e) => e.vars(out),
            SExp::Add(a, b)
            | SExp::Sub(a, b)
            | SExp::Mul(a, b)
            | SExp::Div(a, b)
            | SExp::Xor(a, b)
            | SExp::Implies(a, b)
            | SExp::Iff(a, b) => {
                a.vars(out);
                b.vars(out);
            }
            SExp::Min(es) | SExp::Max(es) | SExp::And(es) | SExp::Or(es) => {
                for e in es {
                    e.vars(out)
                }
            }
        }
    }

    pub fn has_division(&self) -> bool {
        match self {
            SExp::Num(_) | SExp::Var(_) => false,
            SExp::Div(..) => true,
            SExp::Neg(e) | SExp::Abs(e) | SExp::Not(e) => e.has_division(),
            SExp::Add(a, b) | SExp::Sub(a, b) | SExp::Mul(a, b) | SExp::Xor(a, b) | SExp::Implies(a, b) | SExp::Iff(a, b) => a.has_division() || b.has_division(),
            SExp::Min(es) | SExp::Max(es) | SExp::And(es) | SExp::Or(es) => es.iter().any(|e| e.has_division()),
        }
    }

    /// every numeric literal of the expression
    pub fn consts(&self, out: &mut Vec<f64>) {
        match self {
            SExp::Num(v) => out.push(*v),
            SExp::Var(_) => {}
            SExp::Neg(e) | SExp::Abs(e) | SExp::Not(e) => e.consts(out),
            SExp::Add(a, b)
            | SExp::Sub(a, b)
            | SExp::Mul(a, b)
            | SExp::Div(a, b)
            | SExp::Xor(a, b)
            | SExp::Implies(a, b)
            | SExp::Iff(a, b) => {
                a.consts(out);
                b.consts(out);
            }
            SExp::Min(es) | SExp::Max(es) | SExp::And(es) | SExp::Or(es) => {
                for e in es {
                    e.consts(out)
                }
            }
        }
    }

    pub fn size(&self) -> usize {
        match self {
            SExp::Num(_) | SExp::Var(_) => 1,
            SExp::Neg(e) | SExp::Abs(e) | SExp::Not(e) => 1 + e.size(),
            SExp::Add(a, b)
            | SExp::Sub(a, b)
            | SExp::Mul(a, b)
            | SExp::Div(a, b)
            | SExp::Xor(a, b)
            | SExp::Implies(a, b)
            | SExp::Iff(a, b) => 1 + a.size() + b.size(),
            SExp::Min(es) | SExp::Max(es) | SExp::And(es) | SExp::Or(es) => {
                1 + es.iter().map(|e| e.size()).sum::<usize>()
            }
        }
    }

    pub fn has_nonaffine(&self) -> bool {
        match self {
            SExp::Num(_) | SExp::Var(_) => false,
            SExp::Neg(e) => e.has_nonaffine(),
            SExp::Add(a, b) | SExp::Sub(a, b) | SExp::Mul(a, b) | SExp::Div(a, b) => {
                a.has_nonaffine() || b.has_nonaffine()
            }
            _ => true,
        }
    }

    pub fn count_ops(&self, counts: &mut BTreeMap<&'static str, usize>) {
        let name = match self {
            SExp::Num(_) | SExp::Var(_) => "",
            SExp::Neg(_) => "neg",
            SExp::Add(..) => "add",
            SExp::Sub(..) => "sub",
            SExp::Mul(..) => "mul",
            SExp::Div(..) => "div",
            SExp::Abs(_) => "abs",
            SExp::Min(_) => "min",
            SExp::Max(_) => "max",
            SExp::Not(_) => "not",
            SExp::And(_) => "and",
            SExp::Or(_) => "or",
            SExp::Xor(..) => "xor",
            SExp::Implies(..) => "implies",
            SExp::Iff(..) => "iff",
        };
        if !name.is_empty() {
            *counts.entry(name).or_default() += 1;
        }
        match self {
            SExp::Num(_) | SExp::Var(_) => {}
            SExp::Neg(e) | SExp::Abs(e) | SExp::Not(e) => e.count_ops(counts),
            SExp::Add(a, b)
            | SExp::Sub(a, b)
            | SExp::Mul(a, b)
            | SExp::Div(a, b)
            | SExp::Xor(a, b)
            | SExp::Implies(a, b)
            | SExp::Iff(a, b) => {
                a.count_ops(counts);
                b.count_ops(counts);
            }
            SExp::Min(es) | SExp::Max(es) | SExp::And(es) | SExp::Or(es) => {
                for e in es {
                    e.count_ops(counts)
                }
            }
        }
    }

    /// rooc `Exp` built through the public constructors. `structural_logic`: logic operators as the
    /// structural variants (`Exp::And(vec)`, `Exp::Not`) — what the text front-end and the builder
    /// produce — or as `BinOp`/`UnOp` nodes (also part of the public type).
    pub fn to_rooc(&self, structural_logic: bool) -> rooc::model_transformer::Exp {
        use rooc::model_transformer::Exp;
        use rooc::{BinOp, UnOp};
        let r = |e: &SExp| e.to_rooc(structural_logic);
        let bin = |op: BinOp, a: &SExp, b: &SExp| Exp::BinOp(op, Box::new(r(a)), Box::new(r(b)));
        match self {
            SExp::Num(v) => Exp::Number(*v),
            // what the text front-end substitutes for the standard constants
            SExp::Var(n) if n == "Infinity" => Exp::Number(f64::INFINITY),
            SExp::Var(n) if n == "MinusInfinity" => Exp::Number(f64::NEG_INFINITY),
            SExp::Var(n) => Exp::Variable(n.clone()),
            SExp::Neg(e) => Exp::UnOp(UnOp::Neg, Box::new(r(e))),
            SExp::Add(a, b) => bin(BinOp::Add, a, b),
            SExp::Sub(a, b) => bin(BinOp::Sub, a, b),
            SExp::Mul(a, b) => bin(BinOp::Mul, a, b),
            SExp::Div(a, b) => bin(BinOp::Div, a, b),
            SExp::Abs(e) => Exp::Abs(Box::new(r(e))),
            SExp::Min(es) => Exp::Min(es.iter().map(r).collect()),
            SExp::Max(es) => Exp::Max(es.iter().map(r).collect()),
            SExp::Not(e) => {
                if structural_logic {
                    Exp::Not(Box::new(r(e)))
                } else {
                    Exp::UnOp(UnOp::Not, Box::new(r(e)))
                }
            }
            SExp::And(es) => {
                if structural_logic || es.len() != 2 {
                    Exp::And(es.iter().map(r).collect())
                } else {
                    bin(BinOp::And, &es[0], &es[1])
                }
            }
            SExp::Or(es) => {
                if structural_logic || es.len() != 2 {
                    Exp::Or(es.iter().map(r).collect())
                } else {
                    bin(BinOp::Or, &es[0], &es[1])
                }
            }
            SExp::Xor(a, b) => {
                if structural_logic {
                    Exp::Xor(Box::new(r(a)), Box::new(r(b)))
                } else {
                    bin(BinOp::Xor, a, b)
                }
            }
            SExp::Implies(a, b) => {
                if structural_logic {
                    Exp::Implies(Box::new(r(a)), Box::new(r(b)))
                } else {
                    bin(BinOp::Implies, a, b)
                }
            }
            SExp::Iff(a, b) => {
                if structural_logic {
                    Exp::Iff(Box::new(r(a)), Box::new(r(b)))
                } else {
                    bin(BinOp::Iff, a, b)
                }
            }
        }
    }

    /// Converts a rooc `Exp` back (used to compare parse results structurally).
    pub fn from_rooc(e: &rooc::model_transformer::Exp) -> SExp {
        use rooc::model_transformer::Exp;
        use rooc::{BinOp, UnOp};
        let f = |e: &Exp| SExp::from_rooc(e);
        match e {
            Exp::Number(v) => SExp::Num(*v),
            Exp::Variable(n) => SExp::Var(n.clone()),
            Exp::Abs(e) => SExp::Abs(f(e).b()),
            Exp::Min(es) => SExp::Min(es.iter().map(f).collect()),
            Exp::Max(es) => SExp::Max(es.iter().map(f).collect()),
            Exp::And(es) => SExp::And(es.iter().map(f).collect()),
            Exp::Or(es) => SExp::Or(es.iter().map(f).collect()),
            Exp::Not(e) => SExp::Not(f(e).b()),
            Exp::Xor(a, b) => SExp::Xor(f(a).b(), f(b).b()),
            Exp::Implies(a, b) => SExp::Implies(f(a).b(), f(b).b()),
            Exp::Iff(a, b) => SExp::Iff(f(a).b(), f(b).b()),
            Exp::BinOp(op, a, b) => {
                let (a, b) = (f(a), f(b));
                match op {
                    BinOp::Add => SExp::Add(a.b(), b.b()),
                    BinOp::Sub => SExp::Sub(a.b(), b.b()),
                    BinOp::Mul => SExp::Mul(a.b(), b.b()),
                    BinOp::Div => SExp::Div(a.b(), b.b()),
                    BinOp::And => SExp::And(vec![a, b]),
                    BinOp::Or => SExp::Or(vec![a, b]),
                    BinOp::Xor => SExp::Xor(a.b(), b.b()),
                    BinOp::Implies => SExp::Implies(a.b(), b.b()),
                    BinOp::Iff => SExp::Iff(a.b(), b.b()),
                }
            }
            Exp::UnOp(op, e) => match op {
                UnOp::Neg => SExp::Neg(f(e).b()),
                UnOp::Not => SExp::Not(f(e).b()),
            },
        }
    }
}

#[derive(Clone, Copy, Debug, Serialize, Deserialize, PartialEq, Eq)]
pub enum Cmp {
    Le,
    Ge,
    Eq,
    /// strict comparisons: only generated where the check states how it reads them (C07)
    Lt,
    Gt,
}

impl Cmp {
    pub fn to_rooc(self) -> rooc::Comparison {
        match self {
            Cmp::Le => rooc::Comparison::LessOrEqual,
            Cmp::Ge => rooc::Comparison::GreaterOrEqual,
            Cmp::Eq => rooc::Comparison::Equal,
            Cmp::Lt => rooc::Comparison::Less,
            Cmp::Gt => rooc::Comparison::Greater,
        }
    }
    pub fn text(self) -> &'static str {
        match self {
            Cmp::Le => "<=",
            Cmp::Ge => ">=",
            Cmp::Eq => "=",
            Cmp::Lt => "<",
            Cmp::Gt => ">",
        }
    }
    pub fn holds(self, l: &Big, r: &Big) -> bool {
        match self {
            Cmp::Le => l <= r,
            Cmp::Ge => l >= r,
            Cmp::Eq => l == r,
            Cmp::Lt => l < r,
            Cmp::Gt => l > r,
        }
    }
    /// by how much the comparison is violated (0 when it holds)
    pub fn violation(self, l: &Big, r: &Big) -> Big {
        let d = l - r;
        match self {
            Cmp::Le | Cmp::Lt => {
                if d.is_positive() {
                    d
                } else {
                    Big::zero()
                }
            }
            Cmp::Ge | Cmp::Gt => {
                if d.is_negative() {
                    -d
                } else {
                    Big::zero()
                }
            }
            Cmp::Eq => d.abs(),
        }
    }
}
