//! Exact arithmetic oracle: rational two-phase simplex (Bland), branch-and-bound MILP, and a
//! DFS + bound-propagation + Fourier–Motzkin solver for the tiny "extend by auxiliaries" systems.
//!
//! Everything is generic over a field; the fast field is an `i128` rational with overflow
//! detection, the fallback is `BigRational`. No code here comes from rooc.

use num_bigint::BigInt;
use num_rational::BigRational;
use num_traits::{One, Signed, ToPrimitive, Zero};
use std::cell::Cell;
use std::cmp::Ordering;
use std::fmt::Debug;

pub trait Field: Clone + Debug + PartialEq + PartialOrd {
    fn fzero() -> Self;
    fn fone() -> Self;
    fn from_i(v: i64) -> Self;
    /// exact conversion of a finite f64
    fn from_f64_exact(v: f64) -> Self;
    fn from_big(v: &BigRational) -> Self;
    fn to_big(&self) -> BigRational;
    fn add(&self, o: &Self) -> Self;
    fn sub(&self, o: &Self) -> Self;
    fn mul(&self, o: &Self) -> Self;
    fn div(&self, o: &Self) -> Self;
    fn neg(&self) -> Self;
    fn is_zero(&self) -> bool;
    fn is_neg(&self) -> bool;
    fn is_pos(&self) -> bool {
        !self.is_zero() && !self.is_neg()
    }
    fn floor(&self) -> Self;
    fn ceil(&self) -> Self;
    fn is_integer(&self) -> bool;
    fn to_f64(&self) -> f64;
    /// true when some operation since the last reset overflowed (results are then garbage)
    fn overflowed() -> bool;
    fn reset_overflow();
}

// ---------------------------------------------------------------------------------------------
// fast field

thread_local! {
    static OVERFLOW: Cell<bool> = const { Cell::new(false) };
}

fn flag() {
    OVERFLOW.with(|c| c.set(true));
}

#[derive(Clone, Copy, Debug)]
pub struct Q128 {
    n: i128,
    d: i128, // > 0
}

fn gcd(a: i128, b: i128) -> i128 {
    // unsigned: |i128::MIN| does not fit an i128 (reached with coefficients around 1e17)
    let (mut a, mut b) = (a.unsigned_abs(), b.unsigned_abs());
    while b != 0 {
        let t = a % b;
        a = b;
        b = t;
    }
    if a > i128::MAX as u128 {
        flag();
        1
    } else {
        a as i128
    }
}

impl Q128 {
    fn norm(n: i128, d: i128) -> Q128 {
        if d == 0 {
            flag();
            return Q128 { n: 0, d: 1 };
        }
        let g = gcd(n, d);
        let (mut n, mut d) = if g > 1 { (n / g, d / g) } else { (n, d) };
        if d < 0 {
            if n == i128::MIN || d == i128::MIN {
                flag();
                return Q128 { n: 0, d: 1 };
            }
            n = -n;
            d = -d;
        }
        // keep head-room so that one more product cannot silently wrap
        Q128 { n, d }
    }
}

impl PartialEq for Q128 {
    fn eq(&self, o: &Self) -> bool {
        self.n == o.n && self.d == o.d
    }
}

impl PartialOrd for Q128 {
    fn partial_cmp(&self, o: &Self) -> Option<Ordering> {
        if self.d == o.d {
            return self.n.partial_cmp(&o.n);
        }
        match (self.n.checked_mul(o.d), o.n.checked_mul(self.d)) {
            (Some(a), Some(b)) => a.partial_cmp(&b),
            _ => {
                flag();
                Some(Ordering::Equal)
            }
        }
    }
}

impl Field for Q128 {
    fn fzero() -> Self {
        Q128 { n: 0, d: 1 }
    }
    fn fone() -> Self {
        Q128 { n: 1, d: 1 }
    }
    fn from_i(v: i64) -> Self {
        Q128 { n: v as i128, d: 1 }
    }
    fn from_f64_exact(v: f64) -> Self {
        if !v.is_finite() {
            flag();
            return Self::fzero();
        }
        if v == 0.0 {
            return Self::fzero();
        }
        let bits = v.to_bits();
        let sign: i128 = if bits >> 63 == 1 { -1 } else { 1 };
        let exp = ((bits >> 52) & 0x7ff) as i64;
        let frac = (bits & 0xfffffffffffff) as i128;
        let (mant, e) = if exp == 0 {
            (frac, -1074i64)
        } else {
            (frac | (1i128 << 52), exp - 1075)
        };
        // mant * 2^e
        let tz = mant.trailing_zeros() as i64;
        let mant = mant >> tz;
        let e = e + tz;
        if e >= 0 {
            if e > 70 {
                flag();
                return Self::fzero();
            }
            Q128 {
                n: sign * (mant << e),
                d: 1,
            }
        } else {
            if -e > 100 {
                flag();
                return Self::fzero();
            }
            Q128 {
                n: sign * mant,
                d: 1i128 << (-e),
            }
        }
    }
    fn from_big(v: &BigRational) -> Self {
        match (v.numer().to_i128(), v.denom().to_i128()) {
            (Some(n), Some(d)) => Q128::norm(n, d),
            _ => {
                flag();
                Self::fzero()
            }
        }
    }
    fn to_big(&self) -> BigRational {
        BigRational::new(BigInt::from(self.n), BigInt::from(self.d))
    }
    fn add(&self, o: &Self) -> Self {
        if self.d == o.d {
            return match self.n.checked_add(o.n) {
                Some(n) => Q128::norm(n, self.d),
                None => {
                    flag();
                    Self::fzero()
                }
            };
        }
        let g = gcd(self.d, o.d);
        let od = o.d / g;
        let sd = self.d / g;
        match (
            self.n.checked_mul(od),
            o.n.checked_mul(sd),
            self.d.checked_mul(od),
        ) {
            (Some(a), Some(b), Some(d)) => match a.checked_add(b) {
                Some(n) => Q128::norm(n, d),
                None => {
                    flag();
                    Self::fzero()
                }
            },
            _ => {
                flag();
                Self::fzero()
            }
        }
    }
    fn sub(&self, o: &Self) -> Self {
        self.add(&o.neg())
    }
    fn mul(&self, o: &Self) -> Self {
        let g1 = gcd(self.n, o.d);
        let g2 = gcd(o.n, self.d);
        let (a, d2) = if g1 > 1 { (self.n / g1, o.d / g1) } else { (self.n, o.d) };
        let (b, d1) = if g2 > 1 { (o.n / g2, self.d / g2) } else { (o.n, self.d) };
        match (a.checked_mul(b), d1.checked_mul(d2)) {
            (Some(n), Some(d)) => Q128 { n, d },
            _ => {
                flag();
                Self::fzero()
            }
        }
    }
    fn div(&self, o: &Self) -> Self {
        if o.n == 0 {
            flag();
            return Self::fzero();
        }
        let inv = if o.n < 0 {
            match (o.d.checked_neg(), o.n.checked_neg()) {
                (Some(n), Some(d)) => Q128 { n, d },
                _ => {
                    flag();
                    return Self::fzero();
                }
            }
        } else {
            Q128 { n: o.d, d: o.n }
        };
        self.mul(&inv)
    }
    fn neg(&self) -> Self {
        match self.n.checked_neg() {
            Some(n) => Q128 { n, d: self.d },
            None => {
                flag();
                Self::fzero()
            }
        }
    }
    fn is_zero(&self) -> bool {
        self.n == 0
    }
    fn is_neg(&self) -> bool {
        self.n < 0
    }
    fn floor(&self) -> Self {
        Q128 {
            n: self.n.div_euclid(self.d),
            d: 1,
        }
    }
    fn ceil(&self) -> Self {
        let f = self.n.div_euclid(self.d);
        let r = self.n.rem_euclid(self.d);
        Q128 {
            n: if r == 0 { f } else { f + 1 },
            d: 1,
        }
    }
    fn is_integer(&self) -> bool {
        self.d == 1
    }
    fn to_f64(&self) -> f64 {
        self.n as f64 / self.d as f64
    }
    fn overflowed() -> bool {
        OVERFLOW.with(|c| c.get())
    }
    fn reset_overflow() {
        OVERFLOW.with(|c| c.set(false));
    }
}

// ---------------------------------------------------------------------------------------------
// big field

impl Field for BigRational {
    fn fzero() -> Self {
        Zero::zero()
    }
    fn fone() -> Self {
        One::one()
    }
    fn from_i(v: i64) -> Self {
        BigRational::from_integer(BigInt::from(v))
    }
    fn from_f64_exact(v: f64) -> Self {
        BigRational::from_float(v).expect("finite f64")
    }
    fn from_big(v: &BigRational) -> Self {
        v.clone()
    }
    fn to_big(&self) -> BigRational {
        self.clone()
    }
    fn add(&self, o: &Self) -> Self {
        self + o
    }
    fn sub(&self, o: &Self) -> Self {
        self - o
    }
    fn mul(&self, o: &Self) -> Self {
        self * o
    }
    fn div(&self, o: &Self) -> Self {
        self / o
    }
    fn neg(&self) -> Self {
        -self
    }
    fn is_zero(&self) -> bool {
        Zero::is_zero(self)
    }
    fn is_neg(&self) -> bool {
        self.is_negative()
    }
    fn floor(&self) -> Self {
        BigRational::floor(self)
    }
    fn ceil(&self) -> Self {
        BigRational::ceil(self)
    }
    fn is_integer(&self) -> bool {
        BigRational::is_integer(self)
    }
    fn to_f64(&self) -> f64 {
        ToPrimitive::to_f64(self).unwrap_or(f64::NAN)
    }
    fn overflowed() -> bool {
        false
    }
    fn reset_overflow() {}
}

pub type Big = BigRational;

pub fn big(v: f64) -> Big {
    Big::from_f64_exact(v)
}
pub fn big_i(v: i64) -> Big {
    Big::from_i(v)
}
pub fn big_frac(n: i64, d: i64) -> Big {
    BigRational::new(BigInt::from(n), BigInt::from(d))
}

// ---------------------------------------------------------------------------------------------
// problem description (always stored in Big; converted to the working field on solve)

#[derive(Clone, Copy, Debug, PartialEq, Eq)]
pub enum Rel {
    Le,
    Ge,
    Eq,
}

#[derive(Clone, Debug)]
pub struct Row {
    pub coef: Vec<Big>,
    pub rel: Rel,
    pub rhs: Big,
}

#[derive(Clone, Debug)]
pub struct Problem {
    pub n: usize,
    pub lo: Vec<Option<Big>>,
    pub hi: Vec<Option<Big>>,
    pub int: Vec<bool>,
    pub rows: Vec<Row>,
    pub obj: Vec<Big>,
    pub obj_const: Big,
    pub maximize: bool,
}

#[derive(Clone, Debug, PartialEq)]
pub enum Verdict {
    Optimal { value: Big, x: Vec<Big> },
    Infeasible,
    Unbounded,
}

impl Problem {
    pub fn new(n: usize) -> Problem {
        Problem {
            n,
            lo: vec![None; n],
            hi: vec![None; n],
            int: vec![false; n],
            rows: vec![],
            obj: vec![Big::fzero(); n],
            obj_const: Big::fzero(),
            maximize: false,
        }
    }
    pub fn eval_obj(&self, x: &[Big]) -> Big {
        let mut v = self.obj_const.clone();
        for (c, xi) in self.obj.iter().zip(x) {
            v += c * xi;
        }
        v
    }
    /// exact feasibility of a point
    pub fn is_feasible(&self, x: &[Big]) -> bool {
        for i in 0..self.n {
            if let Some(l) = &self.lo[i] {
                if &x[i] < l {
                    return false;
                }
            }
            if let Some(h) = &self.hi[i] {
                if &x[i] > h {
                    return false;
                }
            }
            if self.int[i] && !x[i].is_integer() {
                return false;
            }
        }
        self.rows.iter().all(|r| {
            let mut s = Big::fzero();
            for (c, xi) in r.coef.iter().zip(x) {
                s += c * xi;
            }
            match r.rel {
                Rel::Le => s <= r.rhs,
                Rel::Ge => s >= r.rhs,
                Rel::Eq => s == r.rhs,
            }
        })
    }
}

// ---------------------------------------------------------------------------------------------
// simplex over a field

#[derive(Clone, Debug)]
enum LpOut<F> {
    Optimal(F, Vec<F>),
    Infeasible,
    Unbounded,
}

/// How an original variable is expressed through non-negative standard variables.
#[derive(Clone, Debug)]
enum VarMap<F> {
    /// x = lo + s[idx]
    Shift(F, usize),
    /// x = hi - s[idx]
    Mirror(F, usize),
    /// x = s[p] - s[m]
    Split(usize, usize),
    /// x fixed
    Fixed(F),
}

fn solve_lp_field<F: Field>(
    n: usize,
    lo: &[Option<F>],
    hi: &[Option<F>],
    rows: &[(Vec<F>, Rel, F)],
    obj: &[F],
    maximize: bool,
) -> LpOut<F> {
    // standard variables
    let mut maps: Vec<VarMap<F>> = Vec::with_capacity(n);
    let mut ns = 0usize;
    let mut extra_rows: Vec<(usize, F)> = vec![]; // s[idx] <= ub
    for i in 0..n {
        match (&lo[i], &hi[i]) {
            (Some(l), Some(h)) => {
                if h < l {
                    return LpOut::Infeasible;
                }
                if h == l {
                    maps.push(VarMap::Fixed(l.clone()));
                } else {
                    maps.push(VarMap::Shift(l.clone(), ns));
                    extra_rows.push((ns, h.sub(l)));
                    ns += 1;
                }
            }
            (Some(l), None) => {
                maps.push(VarMap::Shift(l.clone(), ns));
                ns += 1;
            }
            (None, Some(h)) => {
                maps.push(VarMap::Mirror(h.clone(), ns));
                ns += 1;
            }
            (None, None) => {
                maps.push(VarMap::Split(ns, ns + 1));
                ns += 2;
            }
        }
    }
    // rows in standard variables: sum a_j s_j (rel) b
    let mut srows: Vec<(Vec<F>, Rel, F)> = vec![];
    for (coef, rel, rhs) in rows {
        let mut a = vec![F::fzero(); ns];
        let mut b = rhs.clone();
        for i in 0..n {
            let c = &coef[i];
            if c.is_zero() {
                continue;
            }
            match &maps[i] {
                VarMap::Shift(l, idx) => {
                    a[*idx] = a[*idx].add(c);
                    b = b.sub(&c.mul(l));
                }
                VarMap::Mirror(h, idx) => {
                    a[*idx] = a[*idx].sub(c);
                    b = b.sub(&c.mul(h));
                }
                VarMap::Split(p, m) => {
                    a[*p] = a[*p].add(c);
                    a[*m] = a[*m].sub(c);
                }
                VarMap::Fixed(v) => {
                    b = b.sub(&c.mul(v));
                }
            }
        }
        srows.push((a, *rel, b));
    }
    for (idx, ub) in extra_rows {
        let mut a = vec![F::fzero(); ns];
        a[idx] = F::fone();
        srows.push((a, Rel::Le, ub));
    }
    // objective in standard variables (minimise)
    let mut c = vec![F::fzero(); ns];
    let mut c0 = F::fzero();
    for i in 0..n {
        let ci = if maximize { obj[i].neg() } else { obj[i].clone() };
        if ci.is_zero() {
            continue;
        }
        match &maps[i] {
            VarMap::Shift(l, idx) => {
                c[*idx] = c[*idx].add(&ci);
                c0 = c0.add(&ci.mul(l));
            }
            VarMap::Mirror(h, idx) => {
                c[*idx] = c[*idx].sub(&ci);
                c0 = c0.add(&ci.mul(h));
            }
            VarMap::Split(p, m) => {
                c[*p] = c[*p].add(&ci);
                c[*m] = c[*m].sub(&ci);
            }
            VarMap::Fixed(v) => {
                c0 = c0.add(&ci.mul(v));
            }
        }
    }

    // build tableau: columns = ns structural + slacks + artificials
    let m = srows.len();
    let mut nslack = 0;
    for (_, rel, _) in &srows {
        if *rel != Rel::Eq {
            nslack += 1;
        }
    }
    let ncols = ns + nslack + m;
    let mut t: Vec<Vec<F>> = Vec::with_capacity(m);
    let mut rhs: Vec<F> = Vec::with_capacity(m);
    let mut basis: Vec<usize> = Vec::with_capacity(m);
    let mut sk = 0;
    for (r, (a, rel, b)) in srows.iter().enumerate() {
        let mut row = vec![F::fzero(); ncols];
        row[..ns].clone_from_slice(&a[..ns]);
        let mut b = b.clone();
        match rel {
            Rel::Le => {
                row[ns + sk] = F::fone();
                sk += 1;
            }
            Rel::Ge => {
                row[ns + sk] = F::fone().neg();
                sk += 1;
            }
            Rel::Eq => {}
        }
        if b.is_neg() {
            for v in row.iter_mut() {
                *v = v.neg();
            }
            b = b.neg();
        }
        row[ns + nslack + r] = F::fone();
        basis.push(ns + nslack + r);
        t.push(row);
        rhs.push(b);
    }

    // phase 1
    let nart_start = ns + nslack;
    let mut cost1 = vec![F::fzero(); ncols];
    for j in nart_start..ncols {
        cost1[j] = F::fone();
    }
    let r1 = run_simplex(&mut t, &mut rhs, &mut basis, &cost1, ncols);
    match r1 {
        SimplexEnd::Unbounded => unreachable!("phase 1 is bounded below by 0"),
        SimplexEnd::Optimal(v) => {
            if !v.is_zero() {
                return LpOut::Infeasible;
            }
        }
    }
    // drive artificials out of the basis
    let mut r = 0;
    while r < t.len() {
        if basis[r] >= nart_start {
            let col = (0..nart_start).find(|&j| !t[r][j].is_zero());
            match col {
                Some(j) => pivot(&mut t, &mut rhs, &mut basis, r, j),
                None => {
                    // redundant row
                    t.remove(r);
                    rhs.remove(r);
                    basis.remove(r);
                    continue;
                }
            }
        }
        r += 1;
    }
    // phase 2 on structural + slack columns only
    let mut cost2 = vec![F::fzero(); nart_start];
    cost2[..ns].clone_from_slice(&c[..ns]);
    for row in t.iter_mut() {
        row.truncate(nart_start);
    }
    match run_simplex(&mut t, &mut rhs, &mut basis, &cost2, nart_start) {
        SimplexEnd::Unbounded => LpOut::Unbounded,
        SimplexEnd::Optimal(v) => {
            let mut s = vec![F::fzero(); nart_start];
            for (r, &b) in basis.iter().enumerate() {
                s[b] = rhs[r].clone();
            }
            let mut x = Vec::with_capacity(n);
            for mp in maps.iter().take(n) {
                x.push(match mp {
                    VarMap::Shift(l, idx) => l.add(&s[*idx]),
                    VarMap::Mirror(h, idx) => h.sub(&s[*idx]),
                    VarMap::Split(p, m) => s[*p].sub(&s[*m]),
                    VarMap::Fixed(v) => v.clone(),
                });
            }
            let val = v.add(&c0);
            LpOut::Optimal(if maximize { val.neg() } else { val }, x)
        }
    }
}

enum SimplexEnd<F> {
    Optimal(F),
    Unbounded,
}

fn pivot<F: Field>(t: &mut [Vec<F>], rhs: &mut [F], basis: &mut [usize], r: usize, j: usize) {
    let p = t[r][j].clone();
    if p != F::fone() {
        for v in t[r].iter_mut() {
            if !v.is_zero() {
                *v = v.div(&p);
            }
        }
        rhs[r] = rhs[r].div(&p);
    }
    let prow = t[r].clone();
    let prhs = rhs[r].clone();
    for i in 0..t.len() {
        if i == r {
            continue;
        }
        let f = t[i][j].clone();
        if f.is_zero() {
            continue;
        }
        for (k, pv) in prow.iter().enumerate() {
            if !pv.is_zero() {
                t[i][k] = t[i][k].sub(&f.mul(pv));
            }
        }
        rhs[i] = rhs[i].sub(&f.mul(&prhs));
    }
    basis[r] = j;
}

/// Primal simplex with Bland's rule on a tableau whose basis columns are unit columns and whose
/// right-hand sides are non-negative. Returns the optimal cost.
fn run_simplex<F: Field>(
    t: &mut Vec<Vec<F>>,
    rhs: &mut Vec<F>,
    basis: &mut Vec<usize>,
    cost: &[F],
    ncols: usize,
) -> SimplexEnd<F> {
    let mut guard = 0usize;
    loop {
        guard += 1;
        if guard > 100_000 || F::overflowed() {
            // cannot happen with Bland's rule in exact arithmetic unless the fast field
            // overflowed; the caller re-runs with big rationals
            OVERFLOW.with(|c| c.set(true));
            return SimplexEnd::Optimal(F::fzero());
        }
        // reduced costs: d_j = c_j - sum_r c_{B(r)} t[r][j]
        let mut entering = None;
        for j in 0..ncols {
            if basis.contains(&j) {
                continue;
            }
            let mut d = cost[j].clone();
            for (r, &b) in basis.iter().enumerate() {
                if !cost[b].is_zero() && !t[r][j].is_zero() {
                    d = d.sub(&cost[b].mul(&t[r][j]));
                }
            }
            if d.is_neg() {
                entering = Some(j);
                break; // Bland: smallest index
            }
        }
        let Some(j) = entering else {
            let mut v = F::fzero();
            for (r, &b) in basis.iter().enumerate() {
                if !cost[b].is_zero() {
                    v = v.add(&cost[b].mul(&rhs[r]));
                }
            }
            return SimplexEnd::Optimal(v);
        };
        // ratio test, ties by smallest basis index (Bland)
        let mut leave: Option<(usize, F)> = None;
        for r in 0..t.len() {
            if t[r][j].is_pos() {
                let ratio = rhs[r].div(&t[r][j]);
                match &leave {
                    None => leave = Some((r, ratio)),
                    Some((lr, lratio)) => {
                        if ratio < *lratio || (ratio == *lratio && basis[r] < basis[*lr]) {
                            leave = Some((r, ratio));
                        }
                    }
                }
            }
        }
        match leave {
            None => return SimplexEnd::Unbounded,
            Some((r, _)) => pivot(t, rhs, basis, r, j),
        }
    }
}

fn conv_problem<F: Field>(
    p: &Problem,
    lo: &[Option<Big>],
    hi: &[Option<Big>],
) -> (Vec<Option<F>>, Vec<Option<F>>, Vec<(Vec<F>, Rel, F)>, Vec<F>) {
    let lo_f = lo.iter().map(|o| o.as_ref().map(F::from_big)).collect();
    let hi_f = hi.iter().map(|o| o.as_ref().map(F::from_big)).collect();
    let rows = p
        .rows
        .iter()
        .map(|r| {
            (
                r.coef.iter().map(F::from_big).collect(),
                r.rel,
                F::from_big(&r.rhs),
            )
        })
        .collect();
    let obj = p.obj.iter().map(F::from_big).collect();
    (lo_f, hi_f, rows, obj)
}

/// LP relaxation with the given bounds (integrality ignored).
fn lp_with_bounds(p: &Problem, lo: &[Option<Big>], hi: &[Option<Big>]) -> Verdict {
    Q128::reset_overflow();
    let (l, h, rows, obj) = conv_problem::<Q128>(p, lo, hi);
    if !Q128::overflowed() {
        let out = solve_lp_field::<Q128>(p.n, &l, &h, &rows, &obj, p.maximize);
        if !Q128::overflowed() {
            return match out {
                LpOut::Optimal(v, x) => Verdict::Optimal {
                    value: v.to_big() + &p.obj_const,
                    x: x.iter().map(|q| q.to_big()).collect(),
                },
                LpOut::Infeasible => Verdict::Infeasible,
                LpOut::Unbounded => Verdict::Unbounded,
            };
        }
    }
    Q128::reset_overflow();
    let (l, h, rows, obj) = conv_problem::<Big>(p, lo, hi);
    match solve_lp_field::<Big>(p.n, &l, &h, &rows, &obj, p.maximize) {
        LpOut::Optimal(v, x) => Verdict::Optimal {
            value: v + &p.obj_const,
            x,
        },
        LpOut::Infeasible => Verdict::Infeasible,
        LpOut::Unbounded => Verdict::Unbounded,
    }
}

pub fn solve_lp(p: &Problem) -> Verdict {
    lp_with_bounds(p, &p.lo, &p.hi)
}

/// Exact MILP by branch and bound on exact LP relaxations. Integer variables must have finite
/// bounds (they always do in rooc); continuous variables may be unbounded.
///
/// Unboundedness: if the relaxation of a node is unbounded the MILP is reported unbounded as soon
/// as some integer-feasible point exists in that node (for rational data an unbounded relaxation
/// with a feasible mixed-integer point implies an unbounded MILP).
pub fn solve_milp(p: &Problem) -> Verdict {
    for i in 0..p.n {
        if p.int[i] {
            assert!(
                p.lo[i].is_some() && p.hi[i].is_some(),
                "integer variables need finite bounds in the oracle"
            );
        }
    }
    let mut best: Option<(Big, Vec<Big>)> = None;
    let mut unbounded = false;
    let mut stack: Vec<(Vec<Option<Big>>, Vec<Option<Big>>)> = vec![(p.lo.clone(), p.hi.clone())];
    let mut nodes = 0usize;
    while let Some((lo, hi)) = stack.pop() {
        nodes += 1;
        assert!(nodes < 2_000_000, "oracle branch-and-bound exploded");
        // integer bounds rounding
        let mut lo = lo;
        let mut hi = hi;
        let mut empty = false;
        for i in 0..p.n {
            if p.int[i] {
                let l = lo[i].as_ref().unwrap().ceil();
                let h = hi[i].as_ref().unwrap().floor();
                if l > h {
                    empty = true;
                    break;
                }
                lo[i] = Some(l);
                hi[i] = Some(h);
            }
        }
        if empty {
            continue;
        }
        match lp_with_bounds(p, &lo, &hi) {
            Verdict::Infeasible => continue,
            Verdict::Unbounded => {
                // find out whether this node holds a mixed-integer feasible point
                let mut feas = p.clone();
                feas.obj = vec![Big::fzero(); p.n];
                feas.lo = lo.clone();
                feas.hi = hi.clone();
                if matches!(solve_milp(&feas), Verdict::Optimal { .. }) {
                    unbounded = true;
                    break;
                }
                continue;
            }
            Verdict::Optimal { value, x } => {
                if let Some((bv, _)) = &best {
                    let worse = if p.maximize { value <= *bv } else { value >= *bv };
                    if worse {
                        continue;
                    }
                }
                let frac = (0..p.n).find(|&i| p.int[i] && !x[i].is_integer());
                match frac {
                    None => best = Some((value, x)),
                    Some(i) => {
                        let f = x[i].floor();
                        let mut hi1 = hi.clone();
                        hi1[i] = Some(f.clone());
                        let mut lo2 = lo.clone();
                        lo2[i] = Some(f + Big::fone());
                        stack.push((lo.clone(), hi1));
                        stack.push((lo2, hi));
                    }
                }
            }
        }
    }
    if unbounded {
        return Verdict::Unbounded;
    }
    match best {
        Some((value, x)) => Verdict::Optimal { value, x },
        None => Verdict::Infeasible,
    }
}

/// Brute force: enumerate all integer combinations, LP over the rest. Cross-check for `solve_milp`.
pub fn solve_milp_enum(p: &Problem) -> Verdict {
    let ints: Vec<usize> = (0..p.n).filter(|&i| p.int[i]).collect();
    let mut best: Option<(Big, Vec<Big>)> = None;
    let mut unbounded = false;
    let mut cur: Vec<Big> = ints
        .iter()
        .map(|&i| p.lo[i].as_ref().unwrap().ceil())
        .collect();
    if ints
        .iter()
        .any(|&i| p.lo[i].as_ref().unwrap().ceil() > p.hi[i].as_ref().unwrap().floor())
    {
        return Verdict::Infeasible;
    }
    loop {
        let mut lo = p.lo.clone();
        let mut hi = p.hi.clone();
        for (k, &i) in ints.iter().enumerate() {
            lo[i] = Some(cur[k].clone());
            hi[i] = Some(cur[k].clone());
        }
        match lp_with_bounds(p, &lo, &hi) {
            Verdict::Infeasible => {}
            Verdict::Unbounded => unbounded = true,
            Verdict::Optimal { value, x } => {
                let better = match &best {
                    None => true,
                    Some((bv, _)) => {
                        if p.maximize {
                            value > *bv
                        } else {
                            value < *bv
                        }
                    }
                };
                if better {
                    best = Some((value, x));
                }
            }
        }
        // next combination
        let mut k = 0;
        loop {
            if k == ints.len() {
                return if unbounded {
                    Verdict::Unbounded
                } else {
                    match best {
                        Some((value, x)) => Verdict::Optimal { value, x },
                        None => Verdict::Infeasible,
                    }
                };
            }
            let i = ints[k];
            if cur[k] < p.hi[i].as_ref().unwrap().floor() {
                cur[k] += Big::fone();
                break;
            }
            cur[k] = p.lo[i].as_ref().unwrap().ceil();
            k += 1;
        }
    }
}

// ---------------------------------------------------------------------------------------------
// tiny-system solver: DFS over integer variables + bound propagation + Fourier–Motzkin

/// A system over `n` variables used for the "extend a fixed assignment by auxiliaries" questions.
#[derive(Clone, Debug)]
pub struct Sys<F: Field> {
    pub n: usize,
    pub lo: Vec<Option<F>>,
    pub hi: Vec<Option<F>>,
    pub int: Vec<bool>,
    /// sum coef*x (rel) rhs
    pub rows: Vec<(Vec<F>, Rel, F)>,
}

#[derive(Clone, Debug, PartialEq)]
pub enum Ext<F> {
    Infeasible,
    /// minimum of the objective (or `None` when no objective was asked)
    Feasible(Option<F>),
    Unbounded,
}

/// Tightens bounds row by row until nothing changes. Returns false when a contradiction appears.
fn propagate<F: Field>(s: &mut Sys<F>) -> bool {
    for _round in 0..50 {
        let mut changed = false;
        for ri in 0..s.rows.len() {
            let (coef, rel, rhs) = &s.rows[ri];
            // activity bounds
            let rel = *rel;
            for dir in 0..2 {
                // dir 0: use row as sum <= rhs ; dir 1: sum >= rhs
                if (dir == 0 && rel == Rel::Ge) || (dir == 1 && rel == Rel::Le) {
                    continue;
                }
                // for sum <= rhs: for each var j with a_j != 0:
                //   a_j x_j <= rhs - min(sum_{k != j} a_k x_k)
                // for sum >= rhs: a_j x_j >= rhs - max(others)
                // compute the relevant extreme of each term
                let mut inf_count = 0usize;
                let mut inf_idx = usize::MAX;
                let mut total = F::fzero();
                let mut terms: Vec<Option<F>> = Vec::with_capacity(s.n);
                for j in 0..s.n {
                    let a = &coef[j];
                    if a.is_zero() {
                        terms.push(Some(F::fzero()));
                        continue;
                    }
                    // want min of a*x for dir 0, max of a*x for dir 1
                    let want_min = dir == 0;
                    let use_lo = a.is_pos() == want_min;
                    let b = if use_lo { &s.lo[j] } else { &s.hi[j] };
                    match b {
                        Some(b) => {
                            let t = a.mul(b);
                            total = total.add(&t);
                            terms.push(Some(t));
                        }
                        None => {
                            inf_count += 1;
                            inf_idx = j;
                            terms.push(None);
                        }
                    }
                }
                if inf_count == 0 {
                    // feasibility of the row itself
                    let bad = if dir == 0 { total > *rhs } else { total < *rhs };
                    if bad {
                        return false;
                    }
                }
                if inf_count > 1 {
                    continue;
                }
                let mut updates: Vec<(usize, bool, F)> = vec![];
                for j in 0..s.n {
                    let a = &coef[j];
                    if a.is_zero() {
                        continue;
                    }
                    if inf_count == 1 && inf_idx != j {
                        continue;
                    }
                    let others = match &terms[j] {
                        Some(t) => total.sub(t),
                        None => total.clone(),
                    };
                    let bound = rhs.sub(&others).div(a);
                    // dir 0: a x <= rhs - others  => x <= bound if a>0 else x >= bound
                    // dir 1: a x >= rhs - others  => x >= bound if a>0 else x <= bound
                    let is_upper = (dir == 0) == a.is_pos();
                    updates.push((j, is_upper, bound));
                }
                for (j, is_upper, mut bound) in updates {
                    if is_upper {
                        if s.int[j] {
                            bound = bound.floor();
                        }
                        let tighter = match &s.hi[j] {
                            None => true,
                            Some(h) => bound < *h,
                        };
                        if tighter {
                            s.hi[j] = Some(bound);
                            changed = true;
                        }
                    } else {
                        if s.int[j] {
                            bound = bound.ceil();
                        }
                        let tighter = match &s.lo[j] {
                            None => true,
                            Some(l) => bound > *l,
                        };
                        if tighter {
                            s.lo[j] = Some(bound);
                            changed = true;
                        }
                    }
                    if let (Some(l), Some(h)) = (&s.lo[j], &s.hi[j]) {
                        if l > h {
                            return false;
                        }
                    }
                }
            }
        }
        if F::overflowed() {
            return true;
        }
        if !changed {
            break;
        }
    }
    true
}

/// Fourier–Motzkin on a continuous system. `obj`: minimise sum obj*x; returns the minimum.
fn fm_solve<F: Field>(s: &Sys<F>, obj: Option<&[F]>) -> Ext<F> {
    // inequalities in the form sum a x <= b, over columns 0..n (+ column n = t for the objective)
    let has_obj = obj.is_some();
    let nc = s.n + usize::from(has_obj);
    let mut ineqs: Vec<(Vec<F>, F)> = vec![];
    let push_le = |ineqs: &mut Vec<(Vec<F>, F)>, a: Vec<F>, b: F| ineqs.push((a, b));
    for (coef, rel, rhs) in &s.rows {
        let mut a: Vec<F> = coef.clone();
        a.resize(nc, F::fzero());
        match rel {
            Rel::Le => push_le(&mut ineqs, a, rhs.clone()),
            Rel::Ge => push_le(&mut ineqs, a.iter().map(|v| v.neg()).collect(), rhs.neg()),
            Rel::Eq => {
                push_le(&mut ineqs, a.clone(), rhs.clone());
                push_le(&mut ineqs, a.iter().map(|v| v.neg()).collect(), rhs.neg());
            }
        }
    }
    for j in 0..s.n {
        if let Some(l) = &s.lo[j] {
            let mut a = vec![F::fzero(); nc];
            a[j] = F::fone().neg();
            ineqs.push((a, l.neg()));
        }
        if let Some(h) = &s.hi[j] {
            let mut a = vec![F::fzero(); nc];
            a[j] = F::fone();
            ineqs.push((a, h.clone()));
        }
    }
    if let Some(obj) = obj {
        // t >= obj.x  <=>  obj.x - t <= 0 ; minimising t then equals minimising obj.x
        let mut a: Vec<F> = obj.to_vec();
        a.push(F::fone().neg());
        ineqs.push((a, F::fzero()));
    }
    let mut remaining: Vec<usize> = (0..s.n).collect();
    while !remaining.is_empty() {
        // choose the variable with the smallest product of positive and negative occurrences
        let mut best = (usize::MAX, 0usize);
        for (k, &j) in remaining.iter().enumerate() {
            let pos = ineqs.iter().filter(|(a, _)| a[j].is_pos()).count();
            let neg = ineqs.iter().filter(|(a, _)| a[j].is_neg()).count();
            let cost = pos * neg;
            if cost < best.0 {
                best = (cost, k);
            }
        }
        let j = remaining.remove(best.1);
        let mut pos: Vec<(Vec<F>, F)> = vec![];
        let mut neg: Vec<(Vec<F>, F)> = vec![];
        let mut rest: Vec<(Vec<F>, F)> = vec![];
        for (a, b) in ineqs.into_iter() {
            if a[j].is_pos() {
                pos.push((a, b));
            } else if a[j].is_neg() {
                neg.push((a, b));
            } else {
                rest.push((a, b));
            }
        }
        if pos.len() * neg.len() > 4000 {
            flag(); // give up in the fast field; big field has no flag, guard below
            return Ext::Infeasible;
        }
        for (pa, pb) in &pos {
            for (na, nb) in &neg {
                // pa/pa_j : x_j <= (pb - rest)/pa_j ; na: x_j >= (nb - rest)/na_j (na_j<0)
                let fp = F::fone().div(&pa[j]);
                let fnn = F::fone().div(&na[j].neg());
                let mut a = vec![F::fzero(); nc];
                let mut nonzero = false;
                for k in 0..nc {
                    if k == j {
                        continue;
                    }
                    let v = pa[k].mul(&fp).add(&na[k].mul(&fnn));
                    if !v.is_zero() {
                        nonzero = true;
                    }
                    a[k] = v;
                }
                let b = pb.mul(&fp).add(&nb.mul(&fnn));
                if !nonzero {
                    if b.is_neg() {
                        return Ext::Infeasible;
                    }
                    continue;
                }
                rest.push((a, b));
            }
        }
        ineqs = rest;
        if F::overflowed() {
            return Ext::Infeasible;
        }
    }
    // only t (or nothing) is left
    let mut lower: Option<F> = None;
    for (a, b) in &ineqs {
        if has_obj && !a[s.n].is_zero() {
            let bound = b.div(&a[s.n]);
            if a[s.n].is_neg() {
                // -|a| t <= b  => t >= b/a
                lower = Some(match lower {
                    None => bound,
                    Some(l) => {
                        if bound > l {
                            bound
                        } else {
                            l
                        }
                    }
                });
            }
            // upper bounds on t cannot occur: t only appears with coefficient -1
        } else if b.is_neg() {
            return Ext::Infeasible;
        }
    }
    if has_obj {
        match lower {
            Some(l) => Ext::Feasible(Some(l)),
            None => Ext::Unbounded,
        }
    } else {
        Ext::Feasible(None)
    }
}

fn dfs<F: Field>(s: &Sys<F>, obj: Option<&[F]>, best: &mut Ext<F>, nodes: &mut usize) {
    *nodes += 1;
    if *nodes > 200_000 {
        flag();
        return;
    }
    let mut s = s.clone();
    if !propagate(&mut s) {
        return;
    }
    if F::overflowed() {
        return;
    }
    // branch on the integer variable with the smallest range > 0
    let mut pick: Option<(usize, F)> = None;
    for j in 0..s.n {
        if !s.int[j] {
            continue;
        }
        let (Some(l), Some(h)) = (&s.lo[j], &s.hi[j]) else {
            panic!("integer variable without finite bounds in Sys");
        };
        let w = h.sub(l);
        if w.is_pos() {
            match &pick {
                None => pick = Some((j, w)),
                Some((_, pw)) => {
                    if w < *pw {
                        pick = Some((j, w));
                    }
                }
            }
        }
    }
    match pick {
        Some((j, _)) => {
            let l = s.lo[j].clone().unwrap();
            let h = s.hi[j].clone().unwrap();
            let mut v = l;
            while v <= h {
                let mut c = s.clone();
                c.lo[j] = Some(v.clone());
                c.hi[j] = Some(v.clone());
                dfs(&c, obj, best, nodes);
                if obj.is_none() && matches!(best, Ext::Feasible(_)) {
                    return;
                }
                if matches!(best, Ext::Unbounded) || F::overflowed() {
                    return;
                }
                v = v.add(&F::fone());
            }
        }
        None => {
            // all integers fixed: substitute them, FM on the continuous rest
            let cont: Vec<usize> = (0..s.n)
                .filter(|&j| !(s.lo[j].is_some() && s.lo[j] == s.hi[j]))
                .collect();
            let mut sub = Sys {
                n: cont.len(),
                lo: cont.iter().map(|&j| s.lo[j].clone()).collect(),
                hi: cont.iter().map(|&j| s.hi[j].clone()).collect(),
                int: vec![false; cont.len()],
                rows: vec![],
            };
            for (coef, rel, rhs) in &s.rows {
                let mut b = rhs.clone();
                for j in 0..s.n {
                    if !cont.contains(&j) && !coef[j].is_zero() {
                        b = b.sub(&coef[j].mul(s.lo[j].as_ref().unwrap()));
                    }
                }
                let a: Vec<F> = cont.iter().map(|&j| coef[j].clone()).collect();
                if a.iter().all(|v| v.is_zero()) {
                    let ok = match rel {
                        Rel::Le => !b.is_neg(),
                        Rel::Ge => !b.is_pos(),
                        Rel::Eq => b.is_zero(),
                    };
                    if !ok {
                        return;
                    }
                    continue;
                }
                sub.rows.push((a, *rel, b));
            }
            let mut k = F::fzero();
            let sub_obj: Option<Vec<F>> = obj.map(|o| {
                for j in 0..s.n {
                    if !cont.contains(&j) && !o[j].is_zero() {
                        k = k.add(&o[j].mul(s.lo[j].as_ref().unwrap()));
                    }
                }
                cont.iter().map(|&j| o[j].clone()).collect()
            });
            match fm_solve(&sub, sub_obj.as_deref()) {
                Ext::Infeasible => {}
                Ext::Unbounded => *best = Ext::Unbounded,
                Ext::Feasible(v) => {
                    let v = v.map(|v| v.add(&k));
                    match (&*best, &v) {
                        (Ext::Feasible(Some(b)), Some(nv)) => {
                            if nv < b {
                                *best = Ext::Feasible(v);
                            }
                        }
                        (Ext::Infeasible, _) => *best = Ext::Feasible(v),
                        _ => {}
                    }
                }
            }
        }
    }
}

#[derive(Clone, Debug)]
pub struct BigSys {
    pub n: usize,
    pub lo: Vec<Option<Big>>,
    pub hi: Vec<Option<Big>>,
    pub int: Vec<bool>,
    pub rows: Vec<Row>,
}

fn conv_sys<F: Field>(s: &BigSys) -> Sys<F> {
    Sys {
        n: s.n,
        lo: s.lo.iter().map(|o| o.as_ref().map(F::from_big)).collect(),
        hi: s.hi.iter().map(|o| o.as_ref().map(F::from_big)).collect(),
        int: s.int.clone(),
        rows: s
            .rows
            .iter()
            .map(|r| {
                (
                    r.coef.iter().map(F::from_big).collect(),
                    r.rel,
                    F::from_big(&r.rhs),
                )
            })
            .collect(),
    }
}

/// Exact: does the system have a solution; with `obj`, the minimum of `obj . x` over it.
pub fn solve_sys(s: &BigSys, obj: Option<&[Big]>) -> Ext<Big> {
    Q128::reset_overflow();
    let fs = conv_sys::<Q128>(s);
    let fobj: Option<Vec<Q128>> = obj.map(|o| o.iter().map(Q128::from_big).collect());
    if !Q128::overflowed() {
        let mut best = Ext::Infeasible;
        let mut nodes = 0;
        dfs(&fs, fobj.as_deref(), &mut best, &mut nodes);
        if !Q128::overflowed() {
            return match best {
                Ext::Infeasible => Ext::Infeasible,
                Ext::Unbounded => Ext::Unbounded,
                Ext::Feasible(v) => Ext::Feasible(v.map(|q| q.to_big())),
            };
        }
    }
    Q128::reset_overflow();
    // big fallback through the exact simplex / branch and bound (no FM blow-up risk)
    let mut p = Problem::new(s.n);
    p.lo = s.lo.clone();
    p.hi = s.hi.clone();
    p.int = s.int.clone();
    p.rows = s.rows.clone();
    if let Some(o) = obj {
        p.obj = o.to_vec();
    }
    match solve_milp(&p) {
        Verdict::Infeasible => Ext::Infeasible,
        Verdict::Unbounded => Ext::Unbounded,
        Verdict::Optimal { value, .. } => Ext::Feasible(obj.map(|_| value)),
    }
}

// ---------------------------------------------------------------------------------------------
// self tests of the oracle (run by `rv selftest` and before checks that depend on it)

pub fn self_test() -> Result<usize, String> {
    let mut n = 0usize;
    // deterministic pseudo-random small problems; compare simplex+B&B, enumeration and DFS+FM
    let mut state = 0x9e3779b97f4a7c15u64;
    let mut next = |m: i64| -> i64 {
        state ^= state << 13;
        state ^= state >> 7;
        state ^= state << 17;
        ((state >> 11) % (m as u64)) as i64
    };
    for case in 0..400 {
        let nv = 1 + next(4) as usize;
        let nr = next(5) as usize;
        let mut p = Problem::new(nv);
        for i in 0..nv {
            let kind = next(4);
            match kind {
                0 => {
                    p.int[i] = true;
                    let l = next(5) - 2;
                    p.lo[i] = Some(big_i(l));
                    p.hi[i] = Some(big_i(l + next(4)));
                }
                1 => {
                    p.lo[i] = Some(big_i(0));
                }
                2 => {
                    let l = next(7) - 3;
                    p.lo[i] = Some(big_frac(l, 2));
                    p.hi[i] = Some(big_frac(l + next(6), 2));
                }
                _ => {}
            }
            p.obj[i] = big_i(next(7) - 3);
        }
        p.maximize = next(2) == 0;
        for _ in 0..nr {
            let coef: Vec<Big> = (0..nv).map(|_| big_i(next(7) - 3)).collect();
            let rel = match next(3) {
                0 => Rel::Le,
                1 => Rel::Ge,
                _ => Rel::Eq,
            };
            p.rows.push(Row {
                coef,
                rel,
                rhs: big_i(next(9) - 4),
            });
        }
        let a = solve_milp(&p);
        let b = solve_milp_enum(&p);
        let same = match (&a, &b) {
            (Verdict::Optimal { value: va, x: xa }, Verdict::Optimal { value: vb, x: xb }) => {
                va == vb && p.is_feasible(xa) && p.is_feasible(xb) && p.eval_obj(xa) == *va
            }
            (Verdict::Infeasible, Verdict::Infeasible) => true,
            (Verdict::Unbounded, Verdict::Unbounded) => true,
            _ => false,
        };
        if !same {
            return Err(format!("case {case}: B&B {a:?} vs enumeration {b:?} on {p:?}"));
        }
        // DFS+FM: minimise (negate for max)
        let s = BigSys {
            n: p.n,
            lo: p.lo.clone(),
            hi: p.hi.clone(),
            int: p.int.clone(),
            rows: p.rows.clone(),
        };
        let obj: Vec<Big> = if p.maximize {
            p.obj.iter().map(|c| -c).collect()
        } else {
            p.obj.clone()
        };
        let c = solve_sys(&s, Some(&obj));
        let same = match (&a, &c) {
            (Verdict::Optimal { value, .. }, Ext::Feasible(Some(v))) => {
                let v = if p.maximize { -v } else { v.clone() };
                *value == v
            }
            (Verdict::Infeasible, Ext::Infeasible) => true,
            (Verdict::Unbounded, Ext::Unbounded) => true,
            _ => false,
        };
        if !same {
            return Err(format!("case {case}: B&B {a:?} vs DFS+FM {c:?} on {p:?}"));
        }
        let f = solve_sys(&s, None);
        let feasible = !matches!(a, Verdict::Infeasible);
        if feasible != matches!(f, Ext::Feasible(_)) {
            return Err(format!("case {case}: feasibility disagreement {a:?} vs {f:?}"));
        }
        n += 1;
    }
    // a few hand-checked instances
    {
        // min x+y s.t. x+2y>=4, 3x+y>=3, x,y>=0  -> vertex (0.4,1.8) value 2.2
        let mut p = Problem::new(2);
        p.lo = vec![Some(big_i(0)), Some(big_i(0))];
        p.obj = vec![big_i(1), big_i(1)];
        p.rows.push(Row { coef: vec![big_i(1), big_i(2)], rel: Rel::Ge, rhs: big_i(4) });
        p.rows.push(Row { coef: vec![big_i(3), big_i(1)], rel: Rel::Ge, rhs: big_i(3) });
        match solve_lp(&p) {
            Verdict::Optimal { value, .. } if value == big_frac(11, 5) => {}
            o => return Err(format!("hand LP 1: {o:?}")),
        }
        // free variable, unbounded
        let mut p = Problem::new(1);
        p.obj = vec![big_i(1)];
        if solve_lp(&p) != Verdict::Unbounded {
            return Err("hand LP 2".into());
        }
        // 0 = 1
        let mut p = Problem::new(1);
        p.rows.push(Row { coef: vec![big_i(0)], rel: Rel::Eq, rhs: big_i(1) });
        if solve_lp(&p) != Verdict::Infeasible {
            return Err("hand LP 3".into());
        }
        // knapsack: max 5a+4b+3c, 2a+3b+c<=5, 4a+b+2c<=11, 3a+4b+2c<=8, ints 0..3 -> 13
        let mut p = Problem::new(3);
        p.maximize = true;
        for i in 0..3 {
            p.int[i] = true;
            p.lo[i] = Some(big_i(0));
            p.hi[i] = Some(big_i(3));
        }
        p.obj = vec![big_i(5), big_i(4), big_i(3)];
        p.rows.push(Row { coef: vec![big_i(2), big_i(3), big_i(1)], rel: Rel::Le, rhs: big_i(5) });
        p.rows.push(Row { coef: vec![big_i(4), big_i(1), big_i(2)], rel: Rel::Le, rhs: big_i(11) });
        p.rows.push(Row { coef: vec![big_i(3), big_i(4), big_i(2)], rel: Rel::Le, rhs: big_i(8) });
        match solve_milp(&p) {
            Verdict::Optimal { value, .. } if value == big_i(13) => {}
            o => return Err(format!("hand MILP: {o:?}")),
        }
        n += 4;
    }
    // exact f64 conversion
    for v in [0.1f64, -0.75, 3.0, 1e-9, 123456.789, -2.5e-7, 1e9] {
        Q128::reset_overflow();
        let q = Q128::from_f64_exact(v);
        if !Q128::overflowed() && q.to_big() != big(v) {
            return Err(format!("f64 conversion of {v}"));
        }
        n += 1;
    }
    Ok(n)
}
