//! Independent reference parser of the expression sub-language: a tokenizer and textbook
//! precedence climbing with the documented table. Nothing here looks at rooc's grammar file at run
//! time; the table is the one the documentation (and property C09) states:
//!
//!   prefix `-` `not` `!`  >  `* /`  >  `+ -`  >  `and &&`  >  `xor`  >  `or ||`
//!   >  { `implies ->` (right-assoc), `iff <->` (left-assoc) } on one shared lowest level.
//!
//! An implicit multiplication (`2x`, `2(x+1)`, `(a)(b)c`) is a single factor; identifiers that
//! merely start with a keyword are identifiers.

use crate::gen::text::Op;
use crate::oracle::sem::SExp;

#[derive(Clone, Debug, PartialEq)]
pub enum Tok {
    Num(f64),
    Ident(String),
    Op(Op),
    Minus, // binary or prefix, decided by position
    Not,
    LPar,
    RPar,
    LBrace,
    RBrace,
    Comma,
}

const KEYWORDS: [(&str, Option<Op>); 6] = [
    ("and", Some(Op::And)),
    ("or", Some(Op::Or)),
    ("xor", Some(Op::Xor)),
    ("implies", Some(Op::Implies)),
    ("iff", Some(Op::Iff)),
    ("not", None),
];

pub fn tokenize(s: &str) -> Result<Vec<Tok>, String> {
    let cs: Vec<char> = s.chars().collect();
    let mut i = 0;
    let mut out = vec![];
    while i < cs.len() {
        let c = cs[i];
        if c == ' ' || c == '\t' {
            i += 1;
            continue;
        }
        if c.is_ascii_digit() {
            let st = i;
            while i < cs.len() && cs[i].is_ascii_digit() {
                i += 1;
            }
            if i + 1 < cs.len() && cs[i] == '.' && cs[i + 1].is_ascii_digit() {
                i += 1;
                while i < cs.len() && cs[i].is_ascii_digit() {
                    i += 1;
                }
            }
            let t: String = cs[st..i].iter().collect();
            out.push(Tok::Num(t.parse::<f64>().map_err(|e| e.to_string())?));
            continue;
        }
        if c.is_alphabetic() || c == '$' {
            let st = i;
            i += 1;
            // identifier characters incl. '_': `or_1`, `in_k` are names (an index that is bound to
            // nothing is a literal name fragment); a keyword is a keyword only when the whole word is
            while i < cs.len() && (cs[i].is_alphanumeric() || cs[i] == '_') {
                i += 1;
            }
            let word: String = cs[st..i].iter().collect();
            match KEYWORDS.iter().find(|k| k.0 == word) {
                Some((_, Some(op))) => out.push(Tok::Op(*op)),
                Some((_, None)) => out.push(Tok::Not),
                None => out.push(Tok::Ident(word)),
            }
            continue;
        }
        let two: String = cs[i..(i + 2).min(cs.len())].iter().collect();
        let three: String = cs[i..(i + 3).min(cs.len())].iter().collect();
        if three == "<->" {
            out.push(Tok::Op(Op::Iff));
            i += 3;
            continue;
        }
        match two.as_str() {
            "->" => {
                out.push(Tok::Op(Op::Implies));
                i += 2;
                continue;
            }
            "&&" => {
                out.push(Tok::Op(Op::And));
                i += 2;
                continue;
            }
            "||" => {
                out.push(Tok::Op(Op::Or));
                i += 2;
                continue;
            }
            _ => {}
        }
        out.push(match c {
            '+' => Tok::Op(Op::Add),
            '*' => Tok::Op(Op::Mul),
            '/' => Tok::Op(Op::Div),
            '-' => Tok::Minus,
            '!' => Tok::Not,
            '(' => Tok::LPar,
            ')' => Tok::RPar,
            '{' => Tok::LBrace,
            '}' => Tok::RBrace,
            ',' => Tok::Comma,
            other => return Err(format!("unexpected character {other:?}")),
        });
        i += 1;
    }
    Ok(out)
}

pub struct Parser {
    toks: Vec<Tok>,
    pos: usize,
}

fn make(op: Op, a: SExp, b: SExp) -> SExp {
    match op {
        Op::Add => SExp::Add(a.b(), b.b()),
        Op::Sub => SExp::Sub(a.b(), b.b()),
        Op::Mul => SExp::Mul(a.b(), b.b()),
        Op::Div => SExp::Div(a.b(), b.b()),
        Op::And => SExp::And(vec![a, b]),
        Op::Or => SExp::Or(vec![a, b]),
        Op::Xor => SExp::Xor(a.b(), b.b()),
        Op::Implies => SExp::Implies(a.b(), b.b()),
        Op::Iff => SExp::Iff(a.b(), b.b()),
    }
}

impl Parser {
    pub fn new(toks: Vec<Tok>) -> Parser {
        Parser { toks, pos: 0 }
    }
    fn peek(&self) -> Option<&Tok> {
        self.toks.get(self.pos)
    }
    fn next(&mut self) -> Option<Tok> {
        let t = self.toks.get(self.pos).cloned();
        self.pos += 1;
        t
    }
    fn peek_binop(&self) -> Option<Op> {
        match self.peek() {
            Some(Tok::Op(op)) => Some(*op),
            Some(Tok::Minus) => Some(Op::Sub),
            _ => None,
        }
    }

    /// precedence climbing: parse an expression whose operators all have level >= `min`
    pub fn expr(&mut self, min: u8) -> Result<SExp, String> {
        let mut lhs = self.operand()?;
        while let Some(op) = self.peek_binop() {
            if op.level() < min {
                break;
            }
            self.next();
            let next_min = if op.right_assoc() { op.level() } else { op.level() + 1 };
            let rhs = self.expr(next_min)?;
            lhs = make(op, lhs, rhs);
        }
        Ok(lhs)
    }

    /// optional single prefix operator, then a factor
    fn operand(&mut self) -> Result<SExp, String> {
        match self.peek() {
            Some(Tok::Minus) => {
                self.next();
                Ok(SExp::Neg(self.factor()?.b()))
            }
            Some(Tok::Not) => {
                self.next();
                Ok(SExp::Not(self.factor()?.b()))
            }
            _ => self.factor(),
        }
    }

    fn list(&mut self) -> Result<Vec<SExp>, String> {
        // after '{'
        let mut v = vec![self.expr(0)?];
        while self.peek() == Some(&Tok::Comma) {
            self.next();
            v.push(self.expr(0)?);
        }
        match self.next() {
            Some(Tok::RBrace) => Ok(v),
            other => Err(format!("expected '}}', got {other:?}")),
        }
    }

    /// number / parenthesis runs with an optional trailing variable form one product
    fn factor(&mut self) -> Result<SExp, String> {
        let mut parts: Vec<SExp> = vec![];
        loop {
            match self.peek() {
                Some(Tok::Num(v)) => {
                    let v = *v;
                    self.next();
                    parts.push(SExp::Num(v));
                }
                Some(Tok::LPar) => {
                    self.next();
                    let e = self.expr(0)?;
                    match self.next() {
                        Some(Tok::RPar) => {}
                        other => return Err(format!("expected ')', got {other:?}")),
                    }
                    parts.push(e);
                }
                _ => break,
            }
        }
        if let Some(Tok::Ident(name)) = self.peek() {
            let name = name.clone();
            // block functions: name '{' list '}'
            if self.toks.get(self.pos + 1) == Some(&Tok::LBrace) {
                if !parts.is_empty() {
                    return Err("block after number/parenthesis".into());
                }
                self.pos += 2;
                let items = self.list()?;
                return match name.as_str() {
                    "abs" if items.len() == 1 => Ok(SExp::Abs(items.into_iter().next().unwrap().b())),
                    "min" => Ok(SExp::Min(items)),
                    "max" => Ok(SExp::Max(items)),
                    "all" => Ok(SExp::And(items)),
                    "any" => Ok(SExp::Or(items)),
                    other => Err(format!("unknown block {other}")),
                };
            }
            self.next();
            parts.push(match name.as_str() {
                "true" => SExp::Num(1.0),
                "false" => SExp::Num(0.0),
                _ => SExp::Var(name),
            });
        }
        if parts.is_empty() {
            return Err(format!("expected an operand at token {}", self.pos));
        }
        let mut it = parts.into_iter();
        let mut acc = it.next().unwrap();
        for p in it {
            acc = SExp::Mul(acc.b(), p.b());
        }
        Ok(acc)
    }
}

pub fn parse(text: &str) -> Result<SExp, String> {
    let toks = tokenize(text)?;
    let mut p = Parser::new(toks);
    let e = p.expr(0)?;
    if p.pos != p.toks.len() {
        return Err(format!("trailing tokens at {}", p.pos));
    }
    Ok(e)
}

/// Normal form for structural comparison: `Neg(Num c)` and `Num(-c)` are the same constant;
/// `min`/`max`/`abs` keywords cannot be identifiers.
pub fn normalise(e: &SExp) -> SExp {
    let n = normalise;
    match e {
        SExp::Num(v) => SExp::Num(if *v == 0.0 { 0.0 } else { *v }),
        SExp::Var(x) => SExp::Var(x.clone()),
        SExp::Neg(x) => match n(x) {
            SExp::Num(v) => SExp::Num(if v == 0.0 { 0.0 } else { -v }),
            other => SExp::Neg(other.b()),
        },
        SExp::Add(a, b) => SExp::Add(n(a).b(), n(b).b()),
        SExp::Sub(a, b) => SExp::Sub(n(a).b(), n(b).b()),
        SExp::Mul(a, b) => SExp::Mul(n(a).b(), n(b).b()),
        SExp::Div(a, b) => SExp::Div(n(a).b(), n(b).b()),
        SExp::Abs(a) => SExp::Abs(n(a).b()),
        SExp::Min(v) => SExp::Min(v.iter().map(n).collect()),
        SExp::Max(v) => SExp::Max(v.iter().map(n).collect()),
        SExp::Not(a) => SExp::Not(n(a).b()),
        SExp::And(v) => SExp::And(v.iter().map(n).collect()),
        SExp::Or(v) => SExp::Or(v.iter().map(n).collect()),
        SExp::Xor(a, b) => SExp::Xor(n(a).b(), n(b).b()),
        SExp::Implies(a, b) => SExp::Implies(n(a).b(), n(b).b()),
        SExp::Iff(a, b) => SExp::Iff(n(a).b(), n(b).b()),
    }
}
