//! Independent reader of the CPLEX LP text format, written from the format description only
//! (sections Maximize/Minimize, Subject To, Bounds, Binary, General, End; objective constant;
//! default bounds 0 <= x < +inf; `free`; `+/-inf`, `+/-infinity`).

use std::collections::{BTreeMap, BTreeSet};

#[derive(Debug, Clone, PartialEq)]
pub enum Rel {
    Le,
    Ge,
    Eq,
}

#[derive(Debug, Clone)]
pub struct LpRow {
    pub name: Option<String>,
    pub coefs: BTreeMap<String, f64>,
    pub constant: f64,
    pub rel: Rel,
    pub rhs: f64,
}

#[derive(Debug, Clone, Default)]
pub struct LpFile {
    pub maximize: bool,
    pub obj_name: Option<String>,
    pub objective: BTreeMap<String, f64>,
    pub obj_constant: f64,
    pub rows: Vec<LpRow>,
    /// explicit bounds entries (lower, upper); absent = defaults
    pub bounds: BTreeMap<String, (f64, f64)>,
    pub binaries: BTreeSet<String>,
    pub generals: BTreeSet<String>,
    /// every variable name seen anywhere, in order of first appearance
    pub variables: Vec<String>,
}

impl LpFile {
    /// effective bounds after the format's defaults
    pub fn effective_bounds(&self, name: &str) -> (f64, f64) {
        if let Some(b) = self.bounds.get(name) {
            return *b;
        }
        if self.binaries.contains(name) {
            return (0.0, 1.0);
        }
        (0.0, f64::INFINITY)
    }
}

#[derive(Debug, Clone, PartialEq)]
enum Tok {
    Num(f64),
    Name(String),
    Plus,
    Minus,
    Rel(Rel),
    Colon,
}

fn is_name_start(c: char) -> bool {
    c.is_alphabetic() || "!\"#$%&(),;?@_'{}~".contains(c)
}
fn is_name_char(c: char) -> bool {
    c.is_alphanumeric() || "!\"#$%&(),.;?@_'{}~".contains(c)
}

fn tokenize(line: &str) -> Result<Vec<Tok>, String> {
    let cs: Vec<char> = line.chars().collect();
    let mut i = 0;
    let mut out = vec![];
    while i < cs.len() {
        let c = cs[i];
        if c.is_whitespace() {
            i += 1;
        } else if c == '\\' {
            break; // comment
        } else if c.is_ascii_digit() || (c == '.' && i + 1 < cs.len() && cs[i + 1].is_ascii_digit()) {
            let st = i;
            while i < cs.len() && (cs[i].is_ascii_digit() || cs[i] == '.') {
                i += 1;
            }
            if i < cs.len() && (cs[i] == 'e' || cs[i] == 'E') {
                let mut j = i + 1;
                if j < cs.len() && (cs[j] == '+' || cs[j] == '-') {
                    j += 1;
                }
                if j < cs.len() && cs[j].is_ascii_digit() {
                    i = j;
                    while i < cs.len() && cs[i].is_ascii_digit() {
                        i += 1;
                    }
                }
            }
            let t: String = cs[st..i].iter().collect();
            out.push(Tok::Num(t.parse::<f64>().map_err(|e| format!("{t}: {e}"))?));
        } else if c == '+' {
            out.push(Tok::Plus);
            i += 1;
        } else if c == '-' {
            out.push(Tok::Minus);
            i += 1;
        } else if c == ':' {
            out.push(Tok::Colon);
            i += 1;
        } else if c == '<' || c == '>' || c == '=' {
            let mut j = i + 1;
            if j < cs.len() && (cs[j] == '=' || (c == '=' && (cs[j] == '<' || cs[j] == '>'))) {
                j += 1;
            }
            let t: String = cs[i..j].iter().collect();
            out.push(Tok::Rel(match t.as_str() {
                "<" | "<=" | "=<" => Rel::Le,
                ">" | ">=" | "=>" => Rel::Ge,
                "=" | "==" => Rel::Eq,
                other => return Err(format!("relation {other}")),
            }));
            i = j;
        } else if is_name_start(c) {
            let st = i;
            while i < cs.len() && is_name_char(cs[i]) {
                i += 1;
            }
            out.push(Tok::Name(cs[st..i].iter().collect()));
        } else {
            return Err(format!("unexpected character {c:?}"));
        }
    }
    Ok(out)
}

fn infinity_word(s: &str) -> bool {
    matches!(s.to_ascii_lowercase().as_str(), "inf" | "infinity")
}

/// parses `[+-] [coef] name ...` and constants; returns (coefs, constant, tokens consumed)
fn linear(toks: &[Tok], file_vars: &mut Vec<String>) -> Result<(BTreeMap<String, f64>, f64, usize), String> {
    let mut coefs = BTreeMap::new();
    let mut constant = 0.0;
    let mut i = 0;
    let mut first = true;
    loop {
        let mut sign = 1.0;
        let mut saw_sign = false;
        while i < toks.len() && matches!(toks[i], Tok::Plus | Tok::Minus) {
            if toks[i] == Tok::Minus {
                sign = -sign;
            }
            saw_sign = true;
            i += 1;
        }
        if i >= toks.len() || matches!(toks[i], Tok::Rel(_)) {
            if saw_sign {
                return Err("dangling sign".into());
            }
            break;
        }
        if !first && !saw_sign {
            return Err(format!("missing sign before term {}", i));
        }
        first = false;
        match (&toks[i], toks.get(i + 1)) {
            (Tok::Num(c), Some(Tok::Name(n))) => {
                *coefs.entry(n.clone()).or_insert(0.0) += sign * c;
                if !file_vars.contains(n) {
                    file_vars.push(n.clone());
                }
                i += 2;
            }
            (Tok::Num(c), _) => {
                constant += sign * c;
                i += 1;
            }
            (Tok::Name(n), _) => {
                *coefs.entry(n.clone()).or_insert(0.0) += sign;
                if !file_vars.contains(n) {
                    file_vars.push(n.clone());
                }
                i += 1;
            }
            (t, _) => return Err(format!("unexpected token {t:?}")),
        }
    }
    Ok((coefs, constant, i))
}

fn bound_value(toks: &[Tok]) -> Result<(f64, usize), String> {
    let mut i = 0;
    let mut sign = 1.0;
    while i < toks.len() && matches!(toks[i], Tok::Plus | Tok::Minus) {
        if toks[i] == Tok::Minus {
            sign = -sign;
        }
        i += 1;
    }
    match toks.get(i) {
        Some(Tok::Num(v)) => Ok((sign * v, i + 1)),
        Some(Tok::Name(n)) if infinity_word(n) => Ok((sign * f64::INFINITY, i + 1)),
        other => Err(format!("bound value expected, got {other:?}")),
    }
}

pub fn parse(text: &str) -> Result<LpFile, String> {
    #[derive(PartialEq)]
    enum Sec {
        None,
        Objective,
        Rows,
        Bounds,
        Binary,
        General,
        End,
    }
    let mut f = LpFile::default();
    let mut sec = Sec::None;
    let mut seen_sense = false;
    for (ln, raw) in text.lines().enumerate() {
        let line = raw.trim();
        if line.is_empty() {
            continue;
        }
        let low = line.to_ascii_lowercase();
        let header = match low.as_str() {
            "maximize" | "maximise" | "maximum" | "max" => Some((Sec::Objective, true)),
            "minimize" | "minimise" | "minimum" | "min" => Some((Sec::Objective, false)),
            "subject to" | "such that" | "st" | "s.t." | "st." => Some((Sec::Rows, false)),
            "bounds" | "bound" => Some((Sec::Bounds, false)),
            "binary" | "binaries" | "bin" => Some((Sec::Binary, false)),
            "general" | "generals" | "gen" | "integer" | "integers" => Some((Sec::General, false)),
            "end" => Some((Sec::End, false)),
            _ => None,
        };
        if let Some((s, max)) = header {
            if s == Sec::Objective {
                if seen_sense {
                    return Err(format!("line {}: second objective sense", ln + 1));
                }
                seen_sense = true;
                f.maximize = max;
            }
            sec = s;
            continue;
        }
        let toks = tokenize(line).map_err(|e| format!("line {}: {e}", ln + 1))?;
        if toks.is_empty() {
            continue;
        }
        match sec {
            Sec::None => return Err(format!("line {}: text before the objective sense", ln + 1)),
            Sec::End => return Err(format!("line {}: text after End", ln + 1)),
            Sec::Objective => {
                let (name, body) = match (&toks[0], toks.get(1)) {
                    (Tok::Name(n), Some(Tok::Colon)) => (Some(n.clone()), &toks[2..]),
                    _ => (None, &toks[..]),
                };
                if name.is_some() {
                    f.obj_name = name;
                }
                let (coefs, constant, used) = linear(body, &mut f.variables).map_err(|e| format!("line {}: {e}", ln + 1))?;
                if used != body.len() {
                    return Err(format!("line {}: trailing tokens in objective", ln + 1));
                }
                for (k, v) in coefs {
                    *f.objective.entry(k).or_insert(0.0) += v;
                }
                f.obj_constant += constant;
            }
            Sec::Rows => {
                let (name, body) = match (&toks[0], toks.get(1)) {
                    (Tok::Name(n), Some(Tok::Colon)) => (Some(n.clone()), &toks[2..]),
                    _ => (None, &toks[..]),
                };
                let (coefs, constant, used) = linear(body, &mut f.variables).map_err(|e| format!("line {}: {e}", ln + 1))?;
                let rel = match body.get(used) {
                    Some(Tok::Rel(r)) => r.clone(),
                    other => return Err(format!("line {}: relation expected, got {other:?}", ln + 1)),
                };
                let (rhs, n) = bound_value(&body[used + 1..]).map_err(|e| format!("line {}: {e}", ln + 1))?;
                if used + 1 + n != body.len() {
                    return Err(format!("line {}: trailing tokens after right-hand side", ln + 1));
                }
                f.rows.push(LpRow { name, coefs, constant, rel, rhs });
            }
            Sec::Bounds => {
                // forms: l <= x <= u | x <= u | x >= l | x = v | x free | l <= x
                let note = |f: &mut LpFile, n: &String| {
                    if !f.variables.contains(n) {
                        f.variables.push(n.clone());
                    }
                };
                if let (Some(Tok::Name(n)), Some(Tok::Name(w))) = (toks.first(), toks.get(1)) {
                    if w.eq_ignore_ascii_case("free") && toks.len() == 2 {
                        note(&mut f, n);
                        f.bounds.insert(n.clone(), (f64::NEG_INFINITY, f64::INFINITY));
                        continue;
                    }
                }
                if let Some(Tok::Name(n)) = toks.first().filter(|t| matches!(t, Tok::Name(n) if !infinity_word(n))) {
                    // x rel v
                    let rel = match toks.get(1) {
                        Some(Tok::Rel(r)) => r.clone(),
                        other => return Err(format!("line {}: bound relation expected, got {other:?}", ln + 1)),
                    };
                    let (v, used) = bound_value(&toks[2..]).map_err(|e| format!("line {}: {e}", ln + 1))?;
                    if 2 + used != toks.len() {
                        return Err(format!("line {}: trailing tokens in bound", ln + 1));
                    }
                    note(&mut f, n);
                    let cur = f.bounds.get(n).copied().unwrap_or((0.0, f64::INFINITY));
                    let new = match rel {
                        Rel::Le => (cur.0, v),
                        Rel::Ge => (v, cur.1),
                        Rel::Eq => (v, v),
                    };
                    f.bounds.insert(n.clone(), new);
                    continue;
                }
                // l <= x [<= u]
                let (l, used) = bound_value(&toks).map_err(|e| format!("line {}: {e}", ln + 1))?;
                if !matches!(toks.get(used), Some(Tok::Rel(Rel::Le))) {
                    return Err(format!("line {}: '<=' expected after lower bound", ln + 1));
                }
                let Some(Tok::Name(n)) = toks.get(used + 1) else {
                    return Err(format!("line {}: variable expected in bound", ln + 1));
                };
                note(&mut f, n);
                let mut hi = f.bounds.get(n).map(|b| b.1).unwrap_or(f64::INFINITY);
                let rest = &toks[used + 2..];
                if !rest.is_empty() {
                    if !matches!(rest[0], Tok::Rel(Rel::Le)) {
                        return Err(format!("line {}: '<=' expected before upper bound", ln + 1));
                    }
                    let (u, k) = bound_value(&rest[1..]).map_err(|e| format!("line {}: {e}", ln + 1))?;
                    if 1 + k != rest.len() {
                        return Err(format!("line {}: trailing tokens in bound", ln + 1));
                    }
                    hi = u;
                }
                f.bounds.insert(n.clone(), (l, hi));
            }
            Sec::Binary | Sec::General => {
                for t in &toks {
                    match t {
                        Tok::Name(n) => {
                            if !f.variables.contains(n) {
                                f.variables.push(n.clone());
                            }
                            if sec == Sec::Binary {
                                f.binaries.insert(n.clone());
                            } else {
                                f.generals.insert(n.clone());
                            }
                        }
                        other => return Err(format!("line {}: variable name expected, got {other:?}", ln + 1)),
                    }
                }
            }
        }
    }
    if !seen_sense {
        return Err("no objective sense".into());
    }
    if sec != Sec::End {
        return Err("missing End".into());
    }
    Ok(f)
}
