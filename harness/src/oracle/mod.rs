pub mod rat;
pub mod sem;
