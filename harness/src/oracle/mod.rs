pub mod rat;
