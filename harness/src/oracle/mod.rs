pub mod lpread;
pub mod rat;
pub mod refparse;
pub mod sem;
