//! Source-level model cases: typed expression generators (numeric sort / logic sort), conversion
//! to rooc `Model`s through the public constructors, and the test-point construction of
//! DESIGN.md §2.3.

use crate::gen::lin::Dom;
use crate::oracle::rat::{big, big_frac, Big};
use crate::oracle::sem::{Cmp, Env, SExp};
use indexmap::IndexMap;
use num_traits::{Signed, ToPrimitive, Zero};
use proptest::prelude::*;
use rooc::model_transformer::{Constraint, DomainVariable, Model, Objective};
use rooc::{InputSpan, OptimizationType};
use serde::{Deserialize, Serialize};

#[derive(Clone, Debug, Serialize, Deserialize)]
pub struct SCons {
    pub name: String,
    pub lhs: SExp,
    pub rel: Cmp,
    pub rhs: SExp,
    /// bare logic assertion: only `lhs` is meaningful
    pub bare: bool,
}

#[derive(Clone, Debug, Serialize, Deserialize)]
pub enum SObj {
    Min(SExp),
    Max(SExp),
    Satisfy,
}

#[derive(Clone, Debug, Serialize, Deserialize)]
pub struct ModelCase {
    pub vars: Vec<(String, Dom)>,
    pub cons: Vec<SCons>,
    pub obj: SObj,
    /// logic operators as structural `Exp` variants (true) or as `BinOp`/`UnOp` nodes (false)
    pub structural_logic: bool,
    /// mark every declared variable as used (builder behaviour) or only the referenced ones (text)
    pub mark_all_used: bool,
    /// seed of the deterministic test-point construction
    pub point_seed: u64,
}

impl SCons {
    pub fn holds(&self, env: &Env) -> Option<bool> {
        if self.bare {
            Some(!self.lhs.eval(env)?.is_zero())
        } else {
            Some(self.rel.holds(&self.lhs.eval(env)?, &self.rhs.eval(env)?))
        }
    }
    /// violation magnitude (0 = holds); bare assertions violate by 1
    pub fn violation(&self, env: &Env) -> Option<Big> {
        if self.bare {
            Some(if self.lhs.eval(env)?.is_zero() {
                big(1.0)
            } else {
                Big::zero()
            })
        } else {
            Some(self.rel.violation(&self.lhs.eval(env)?, &self.rhs.eval(env)?))
        }
    }
    pub fn text(&self) -> String {
        let name = if self.name.is_empty() {
            String::new()
        } else {
            format!("{}: ", self.name)
        };
        if self.bare {
            format!("{name}{}", crate::gen::text::print_min(&self.lhs))
        } else {
            format!(
                "{name}{} {} {}",
                crate::gen::text::print_min(&self.lhs),
                self.rel.text(),
                crate::gen::text::print_min(&self.rhs)
            )
        }
    }
}

impl ModelCase {
    pub fn referenced_vars(&self) -> Vec<String> {
        let mut v = vec![];
        match &self.obj {
            SObj::Min(e) | SObj::Max(e) => e.vars(&mut v),
            SObj::Satisfy => {}
        }
        for c in &self.cons {
            c.lhs.vars(&mut v);
            if !c.bare {
                c.rhs.vars(&mut v);
            }
        }
        v
    }

    pub fn to_rooc(&self) -> Model {
        let s = self.structural_logic;
        let obj = match &self.obj {
            SObj::Min(e) => Objective::new(OptimizationType::Min, e.to_rooc(s)),
            SObj::Max(e) => Objective::new(OptimizationType::Max, e.to_rooc(s)),
            // what the text front-end produces for `solve`
            SObj::Satisfy => Objective::new(
                OptimizationType::Satisfy,
                rooc::model_transformer::Exp::Number(0.0),
            ),
        };
        let cons = self
            .cons
            .iter()
            .map(|c| {
                if c.bare {
                    Constraint::new_logic_assertion(c.lhs.to_rooc(s), c.name.clone())
                } else {
                    Constraint::new(c.lhs.to_rooc(s), c.rel.to_rooc(), c.rhs.to_rooc(s), c.name.clone())
                }
            })
            .collect();
        let used = self.referenced_vars();
        let mut domain: IndexMap<String, DomainVariable> = IndexMap::new();
        for (name, dom) in &self.vars {
            let mut dv = DomainVariable::new(dom.to_rooc(), InputSpan::default());
            if self.mark_all_used || used.contains(name) {
                dv.increment_usage();
            }
            domain.insert(name.clone(), dv);
        }
        Model::new(obj, cons, domain)
    }

    pub fn text(&self) -> String {
        let obj = match &self.obj {
            SObj::Min(e) => format!("min {}", crate::gen::text::print_min(e)),
            SObj::Max(e) => format!("max {}", crate::gen::text::print_min(e)),
            SObj::Satisfy => "solve".to_string(),
        };
        let cons: Vec<String> = self.cons.iter().map(|c| format!("    {}", c.text())).collect();
        let decl: Vec<String> = self
            .vars
            .iter()
            .map(|(n, d)| format!("    {} as {}", n, crate::gen::text::dom_text(d)))
            .collect();
        format!("{obj}\ns.t.\n{}\ndefine\n{}", cons.join("\n"), decl.join("\n"))
    }

    pub fn has_nonaffine(&self) -> bool {
        self.cons.iter().any(|c| c.bare || c.lhs.has_nonaffine() || c.rhs.has_nonaffine())
            || match &self.obj {
                SObj::Min(e) | SObj::Max(e) => e.has_nonaffine(),
                SObj::Satisfy => false,
            }
    }

    /// exact source feasibility of a full assignment; `None` if some expression is undefined
    /// A constraint without variables whose two sides differ by less than 1e-9 relative (or are
    /// equal): rooc decides it after folding both sides in rounded f64 (`2 / 3 >= 1 + 1 / -3` is
    /// true exactly and false in f64), so the exact oracle has no say about such a model.
    pub fn has_constant_row_decided_by_rounding(&self) -> bool {
        self.cons.iter().any(|c| {
            if c.bare {
                return false;
            }
            let mut vars = vec![];
            c.lhs.vars(&mut vars);
            c.rhs.vars(&mut vars);
            if !vars.is_empty() {
                return false;
            }
            let env = Env::new();
            let (Some(l), Some(r)) = (c.lhs.eval(&env), c.rhs.eval(&env)) else { return false };
            let mut consts = vec![];
            c.lhs.consts(&mut consts);
            c.rhs.consts(&mut consts);
            let inexact_data = consts.iter().any(|v| (v * 1024.0).fract() != 0.0) || c.lhs.has_division() || c.rhs.has_division();
            inexact_data && (&l - &r).abs() <= big(1e-9) * (l.abs() + r.abs() + big(1.0))
        })
    }

    pub fn src_feasible(&self, env: &Env) -> Option<bool> {
        for (name, dom) in &self.vars {
            let v = env.get(name)?;
            let (lo, hi) = dom.bounds();
            if let Some(l) = lo {
                if *v < l {
                    return Some(false);
                }
            }
            if let Some(h) = hi {
                if *v > h {
                    return Some(false);
                }
            }
            if dom.is_discrete() && !v.is_integer() {
                return Some(false);
            }
        }
        for c in &self.cons {
            if !c.holds(env)? {
                return Some(false);
            }
        }
        Some(true)
    }

    /// largest violation over constraints and domains (0 = feasible)
    pub fn src_violation(&self, env: &Env) -> Option<Big> {
        let mut worst = Big::zero();
        for (name, dom) in &self.vars {
            let v = env.get(name)?;
            let (lo, hi) = dom.bounds();
            if let Some(l) = lo {
                if *v < l {
                    worst = worst.max(&l - v);
                }
            }
            if let Some(h) = hi {
                if *v > h {
                    worst = worst.max(v - &h);
                }
            }
            if dom.is_discrete() && !v.is_integer() {
                worst = worst.max(big(1.0));
            }
        }
        for c in &self.cons {
            worst = worst.max(c.violation(env)?);
        }
        Some(worst)
    }
}

// ---------------------------------------------------------------------------------------------
// deterministic helper PRNG for the test-point construction (seeded by a generated value)

pub struct XorShift(pub u64);
impl XorShift {
    pub fn new(seed: u64) -> Self {
        XorShift(seed ^ 0x9e3779b97f4a7c15 | 1)
    }
    pub fn next(&mut self) -> u64 {
        let mut x = self.0;
        x ^= x << 13;
        x ^= x >> 7;
        x ^= x << 17;
        self.0 = x;
        x.wrapping_mul(0x2545F4914F6CDD1D) >> 16
    }
    pub fn below(&mut self, n: usize) -> usize {
        if n == 0 {
            0
        } else {
            (self.next() % n as u64) as usize
        }
    }
}

/// Candidate values of one variable (exact), before root finding.
fn candidates(dom: &Dom, rng: &mut XorShift) -> Vec<Big> {
    match dom {
        Dom::Bool => vec![big(0.0), big(1.0)],
        Dom::Int(a, b) => {
            let (a, b) = (*a as i64, *b as i64);
            if b - a <= 8 {
                (a..=b).map(|v| big(v as f64)).collect()
            } else {
                let mut v: Vec<i64> = vec![a, a + 1, b - 1, b, 0.clamp(a, b), 1.clamp(a, b), (-1).clamp(a, b)];
                for _ in 0..3 {
                    v.push(a + rng.below((b - a + 1) as usize) as i64);
                }
                v.sort();
                v.dedup();
                v.into_iter().map(|v| big(v as f64)).collect()
            }
        }
        Dom::Real(_, _) | Dom::NonNeg(_, _) => {
            let (lo, hi) = dom.bounds_f64();
            let mut v: Vec<Big> = vec![];
            let clo = lo.max(-7.0);
            let chi = hi.min(7.0);
            if lo.is_finite() {
                v.push(big(lo));
            }
            if hi.is_finite() {
                v.push(big(hi));
            }
            if clo <= chi {
                // half grid
                let mut t = (clo * 2.0).ceil() / 2.0;
                while t <= chi {
                    v.push(big(t));
                    t += 0.5;
                }
                // random sixteenths
                for _ in 0..4 {
                    let span = ((chi - clo) * 16.0) as usize;
                    let k = rng.below(span + 1);
                    v.push(big(clo) + big_frac(k as i64, 16));
                }
            }
            // far points on infinite sides
            // (a guessed big-M constant such as 1e6 or 1e9 is exposed only beyond it)
            if !lo.is_finite() {
                for k in [6, 10, 21, 34] {
                    v.push(big(-((1u64 << k) as f64)));
                }
            }
            if !hi.is_finite() {
                for k in [6, 10, 21, 34] {
                    v.push(big((1u64 << k) as f64));
                }
            }
            v.sort();
            v.dedup();
            v
        }
    }
}

/// Test set of a model: all (or a sample of) discrete combinations, base points over candidate
/// values of the continuous variables, and along each continuous axis through a base point the
/// interpolated roots of every constraint with their 1/16-neighbours.
pub fn test_points(case: &ModelCase, max_points: usize) -> Vec<Env> {
    let mut rng = XorShift::new(case.point_seed);
    let cands: Vec<Vec<Big>> = case.vars.iter().map(|(_, d)| candidates(d, &mut rng)).collect();
    let n = case.vars.len();
    let mut points: Vec<Vec<Big>> = vec![];
    let all_discrete = case.vars.iter().all(|v| v.1.is_discrete());
    let product: usize = cands.iter().map(|c| c.len().max(1)).product();
    if all_discrete && product <= max_points.max(256) {
        // full enumeration
        let mut idx = vec![0usize; n];
        loop {
            points.push((0..n).map(|i| cands[i][idx[i]].clone()).collect());
            let mut k = 0;
            loop {
                if k == n {
                    break;
                }
                idx[k] += 1;
                if idx[k] < cands[k].len() {
                    break;
                }
                idx[k] = 0;
                k += 1;
            }
            if k == n {
                break;
            }
        }
        return to_envs(case, points);
    }
    // every corner of the declared box (finite sides only, up to five variables): a big-M constant
    // that is too small cuts off exactly the corners where one operand is at its top and another at
    // its bottom, random base points rarely land there
    if n <= 5 {
        let sides: Vec<Vec<Big>> = case
            .vars
            .iter()
            .map(|(_, d)| {
                let (lo, hi) = d.bounds_f64();
                let mut v = vec![];
                if lo.is_finite() {
                    v.push(big(lo));
                }
                if hi.is_finite() && hi != lo {
                    v.push(big(hi));
                }
                if v.is_empty() {
                    v.push(big(0.0));
                }
                v
            })
            .collect();
        let mut idx = vec![0usize; n];
        'corners: loop {
            points.push((0..n).map(|i| sides[i][idx[i]].clone()).collect());
            let mut k = 0;
            loop {
                if k == n {
                    break 'corners;
                }
                idx[k] += 1;
                if idx[k] < sides[k].len() {
                    break;
                }
                idx[k] = 0;
                k += 1;
            }
        }
    }
    let corner_count = points.len();
    let n_base = (max_points / 4).max(6);
    for _ in 0..n_base {
        let p: Vec<Big> = (0..n).map(|i| cands[i][rng.below(cands[i].len())].clone()).collect();
        points.push(p);
    }
    // roots along continuous axes
    let base_count = points.len();
    for bi in 0..base_count {
        for vi in 0..n {
            if case.vars[vi].1.is_discrete() {
                continue;
            }
            if points.len() >= max_points {
                break;
            }
            let (lo, hi) = case.vars[vi].1.bounds_f64();
            let a = lo.max(-8.0);
            let b = hi.min(8.0);
            if a > b {
                continue;
            }
            let base = points[bi].clone();
            let mut added = 0;
            for c in &case.cons {
                if c.bare || added >= 6 {
                    continue;
                }
                let g = |t: &Big| -> Option<Big> {
                    let mut p = base.clone();
                    p[vi] = t.clone();
                    let env = env_of(case, &p);
                    Some(c.lhs.eval(&env)? - c.rhs.eval(&env)?)
                };
                let steps = ((b - a) * 4.0) as i64; // quarter grid
                let mut prev_t = big(a);
                let mut prev_g = g(&prev_t);
                for k in 1..=steps.max(1) {
                    let t = big(a) + big_frac(k, 4);
                    let gt = g(&t);
                    if let (Some(g0), Some(g1)) = (&prev_g, &gt) {
                        if (g0.is_positive() && g1.is_negative()) || (g0.is_negative() && g1.is_positive()) {
                            // linear interpolation (exact root when the cell has no breakpoint)
                            let root = &prev_t - g0 * (&t - &prev_t) / (g1 - g0);
                            for delta in [big(0.0), big_frac(1, 16), big_frac(-1, 16)] {
                                let mut p = base.clone();
                                p[vi] = &root + &delta;
                                points.push(p);
                                added += 1;
                            }
                        } else if g1.is_zero() && !g0.is_zero() {
                            for delta in [big_frac(1, 16), big_frac(-1, 16)] {
                                let mut p = base.clone();
                                p[vi] = &t + &delta;
                                points.push(p);
                                added += 1;
                            }
                        }
                    }
                    prev_t = t;
                    prev_g = gt;
                    if added >= 6 {
                        break;
                    }
                }
            }
        }
    }
    // one value just outside each finite declared bound of a continuous variable
    for vi in 0..n {
        if case.vars[vi].1.is_discrete() || points.is_empty() {
            continue;
        }
        let (lo, hi) = case.vars[vi].1.bounds_f64();
        let base = points[rng.below(base_count.max(1))].clone();
        if lo.is_finite() {
            let mut p = base.clone();
            p[vi] = big(lo) - big_frac(1, 16);
            points.push(p);
        }
        if hi.is_finite() {
            let mut p = base.clone();
            p[vi] = big(hi) + big_frac(1, 16);
            points.push(p);
        }
    }
    // deterministic thinning of everything but the corners
    let corners: Vec<Vec<Big>> = points[..corner_count].to_vec();
    let mut rest: Vec<Vec<Big>> = points[corner_count..].to_vec();
    rest.sort();
    rest.dedup();
    rest.retain(|p| !corners.contains(p));
    while corners.len() + rest.len() > max_points.max(corners.len()) && !rest.is_empty() {
        let k = rng.below(rest.len());
        rest.swap_remove(k);
    }
    let mut points = corners;
    points.extend(rest);
    points.sort();
    points.dedup();
    to_envs(case, points)
}

fn env_of(case: &ModelCase, p: &[Big]) -> Env {
    case.vars.iter().map(|v| v.0.clone()).zip(p.iter().cloned()).collect()
}

fn to_envs(case: &ModelCase, points: Vec<Vec<Big>>) -> Vec<Env> {
    points.iter().map(|p| env_of(case, p)).collect()
}

pub fn env_text(env: &Env) -> String {
    env.iter()
        .map(|(k, v)| format!("{k}={v}"))
        .collect::<Vec<_>>()
        .join(", ")
}

pub fn big_to_f64(v: &Big) -> f64 {
    v.to_f64().unwrap_or(f64::NAN)
}

// ---------------------------------------------------------------------------------------------
// strategies

#[derive(Clone, Copy, Debug)]
pub struct ModelParams {
    pub max_vars: usize,
    pub max_cons: usize,
    pub depth: u32,
    /// allow constants such as 0.1, 1/3, 1.9 whose arithmetic is inexact in f64
    pub inexact: bool,
    /// allow declarations without finite bounds
    pub unbounded_decl: bool,
    pub objective: bool,
}

pub fn num_const(inexact: bool) -> BoxedStrategy<f64> {
    let base = prop_oneof![
        3 => Just(0.0),
        3 => Just(1.0),
        2 => Just(-1.0),
        6 => (-6i32..=6).prop_map(|v| v as f64),
        4 => (-16i32..=16).prop_map(|v| v as f64 / 4.0),
        1 => Just(2.0),
    ];
    if inexact {
        prop_oneof![
            12 => base,
            1 => Just(0.1),
            1 => Just(1.0 / 3.0),
            1 => Just(1.9),
            1 => Just(-0.7),
        ]
        .boxed()
    } else {
        base.boxed()
    }
}

pub fn scale_const(inexact: bool) -> BoxedStrategy<f64> {
    let base = prop_oneof![
        3 => Just(2.0),
        3 => Just(-1.0),
        3 => Just(-2.0),
        2 => Just(3.0),
        2 => Just(-3.0),
        2 => Just(0.5),
        2 => Just(-0.5),
        1 => Just(0.25),
        1 => Just(4.0),
        1 => Just(1.0),
        1 => Just(-4.0),
    ];
    if inexact {
        prop_oneof![10 => base, 1 => Just(0.1), 1 => Just(7.0), 1 => Just(-1.9), 1 => Just(3.0)].boxed()
    } else {
        base.boxed()
    }
}

fn pick(names: &[String]) -> BoxedStrategy<SExp> {
    let names = names.to_vec();
    (0..names.len()).prop_map(move |i| SExp::Var(names[i].clone())).boxed()
}

/// logic-sort expressions over Boolean variables
pub fn logic_exp(bools: &[String], depth: u32) -> BoxedStrategy<SExp> {
    let leaf: BoxedStrategy<SExp> = if bools.is_empty() {
        prop_oneof![Just(SExp::Num(0.0)), Just(SExp::Num(1.0))].boxed()
    } else {
        prop_oneof![
            10 => pick(bools),
            1 => Just(SExp::Num(0.0)),
            1 => Just(SExp::Num(1.0)),
        ]
        .boxed()
    };
    leaf.prop_recursive(depth, 24, 3, |inner| {
        prop_oneof![
            3 => inner.clone().prop_map(|e| SExp::Not(e.b())),
            3 => proptest::collection::vec(inner.clone(), 1..=3).prop_map(SExp::And),
            3 => proptest::collection::vec(inner.clone(), 1..=3).prop_map(SExp::Or),
            2 => (inner.clone(), inner.clone()).prop_map(|(a, b)| SExp::Xor(a.b(), b.b())),
            2 => (inner.clone(), inner.clone()).prop_map(|(a, b)| SExp::Implies(a.b(), b.b())),
            2 => (inner.clone(), inner).prop_map(|(a, b)| SExp::Iff(a.b(), b.b())),
        ]
    })
    .boxed()
}

/// numeric-sort expressions: constants, numeric variables, logic values used as numbers, + - neg,
/// scaling by constants of both signs, division by non-zero constants, abs, min, max
pub fn num_exp(nums: &[String], bools: &[String], depth: u32, inexact: bool) -> BoxedStrategy<SExp> {
    let konst = num_const(inexact).prop_map(SExp::Num).boxed();
    let mut leaves: Vec<(u32, BoxedStrategy<SExp>)> = vec![(3, konst)];
    if !nums.is_empty() {
        leaves.push((10, pick(nums)));
    }
    if !bools.is_empty() {
        leaves.push((2, logic_exp(bools, 1)));
    }
    let leaf = proptest::strategy::Union::new_weighted(leaves).boxed();
    leaf.prop_recursive(depth, 32, 4, move |inner| {
        prop_oneof![
            4 => (inner.clone(), inner.clone()).prop_map(|(a, b)| SExp::Add(a.b(), b.b())),
            4 => (inner.clone(), inner.clone()).prop_map(|(a, b)| SExp::Sub(a.b(), b.b())),
            2 => inner.clone().prop_map(|e| SExp::Neg(e.b())),
            3 => (scale_const(inexact), inner.clone()).prop_map(|(c, e)| SExp::Mul(SExp::Num(c).b(), e.b())),
            2 => (scale_const(inexact), inner.clone()).prop_map(|(c, e)| SExp::Mul(e.b(), SExp::Num(c).b())),
            1 => inner.clone().prop_map(|e| SExp::Mul(SExp::Num(0.0).b(), e.b())),
            2 => (scale_const(inexact), inner.clone()).prop_map(|(c, e)| SExp::Div(e.b(), SExp::Num(c).b())),
            4 => inner.clone().prop_map(|e| SExp::Abs(e.b())),
            3 => proptest::collection::vec(inner.clone(), 1..=4).prop_map(SExp::Min),
            3 => proptest::collection::vec(inner, 1..=4).prop_map(SExp::Max),
        ]
    })
    .boxed()
}

pub fn cmp() -> BoxedStrategy<Cmp> {
    prop_oneof![4 => Just(Cmp::Le), 4 => Just(Cmp::Ge), 2 => Just(Cmp::Eq)].boxed()
}

/// an affine row over the numeric (and Boolean) variables: sum of up to three terms rel constant
fn affine_row(all: &[String], inexact: bool) -> BoxedStrategy<(SExp, Cmp, SExp)> {
    let term = (scale_const(inexact), pick(all), 0u8..4).prop_map(|(c, v, form)| match form {
        0 => v,
        1 => SExp::Mul(SExp::Num(c).b(), v.b()),
        2 => SExp::Mul(v.b(), SExp::Num(c).b()),
        _ => SExp::Neg(v.b()),
    });
    (
        proptest::collection::vec(term, 1..=3),
        cmp(),
        num_const(inexact),
        any::<bool>(),
    )
        .prop_map(|(terms, rel, c, flip)| {
            let mut it = terms.into_iter();
            let mut lhs = it.next().unwrap();
            for t in it {
                lhs = SExp::Add(lhs.b(), t.b());
            }
            if flip {
                (SExp::Num(c), rel, lhs)
            } else {
                (lhs, rel, SExp::Num(c))
            }
        })
        .boxed()
}

pub fn dom(p: ModelParams) -> BoxedStrategy<Dom> {
    let lo = (-5i32..=3).prop_map(|v| v as f64);
    let bounded = prop_oneof![
        4 => Just(Dom::Bool),
        3 => (-4i32..=3, 0i32..=5).prop_map(|(l, w)| Dom::Int(l, l + w)),
        4 => (lo.clone(), 1i32..=8).prop_map(|(l, w)| Dom::Real(Some(l), Some(l + w as f64))),
        2 => (0i32..=3, 1i32..=6).prop_map(|(l, w)| Dom::NonNeg(l as f64, Some((l + w) as f64))),
    ];
    if p.unbounded_decl {
        prop_oneof![
            10 => bounded,
            2 => Just(Dom::Real(None, None)),
            2 => Just(Dom::NonNeg(0.0, None)),
            1 => lo.clone().prop_map(|l| Dom::Real(Some(l), None)),
            1 => lo.prop_map(|l| Dom::Real(None, Some(l))),
        ]
        .boxed()
    } else {
        bounded.boxed()
    }
}

pub fn model_case(p: ModelParams) -> BoxedStrategy<ModelCase> {
    (proptest::collection::vec(dom(p), 1..=p.max_vars), 1..=p.max_cons)
        .prop_flat_map(move |(doms, ncons)| {
            let mut vars: Vec<(String, Dom)> = vec![];
            let (mut nb, mut ni, mut nx) = (0, 0, 0);
            for d in doms {
                let name = match d {
                    Dom::Bool => {
                        nb += 1;
                        format!("b{}", nb - 1)
                    }
                    Dom::Int(_, _) => {
                        ni += 1;
                        format!("i{}", ni - 1)
                    }
                    _ => {
                        nx += 1;
                        format!("x{}", nx - 1)
                    }
                };
                vars.push((name, d));
            }
            let bools: Vec<String> = vars.iter().filter(|v| v.1 == Dom::Bool).map(|v| v.0.clone()).collect();
            let nums: Vec<String> = vars.iter().filter(|v| v.1 != Dom::Bool).map(|v| v.0.clone()).collect();
            let all: Vec<String> = vars.iter().map(|v| v.0.clone()).collect();
            let ne = num_exp(&nums, &bools, p.depth, p.inexact);
            let le = logic_exp(&bools, p.depth.min(3));
            let logic_cons = {
                let le2 = le.clone();
                prop_oneof![
                    3 => le.clone().prop_map(|e| (e, Cmp::Eq, SExp::Num(1.0), true)),
                    2 => (le.clone(), cmp(), prop_oneof![Just(0.0), Just(1.0)], any::<bool>()).prop_map(
                        |(e, rel, c, flip)| if flip {
                            (SExp::Num(c), rel, e, false)
                        } else {
                            (e, rel, SExp::Num(c), false)
                        }
                    ),
                    1 => (le2.clone(), cmp(), le2).prop_map(|(a, rel, b)| (a, rel, b, false)),
                ]
            };
            let general = (ne.clone(), cmp(), ne.clone()).prop_map(|(a, r, b)| (a, r, b, false));
            let vs_const = (ne.clone(), cmp(), num_const(p.inexact), any::<bool>()).prop_map(
                |(a, r, c, flip)| if flip {
                    (SExp::Num(c), r, a, false)
                } else {
                    (a, r, SExp::Num(c), false)
                },
            );
            let affine = affine_row(&all, p.inexact).prop_map(|(a, r, b)| (a, r, b, false));
            let one = if bools.is_empty() {
                prop_oneof![3 => affine, 4 => vs_const, 3 => general].boxed()
            } else {
                prop_oneof![3 => affine, 4 => vs_const, 3 => general, 3 => logic_cons].boxed()
            };
            let cons = proptest::collection::vec(
                (one, prop_oneof![3 => Just(0u8), 1 => Just(1u8), 1 => Just(2u8)]),
                ncons,
            );
            let obj = if p.objective {
                prop_oneof![
                    4 => ne.clone().prop_map(SObj::Min),
                    4 => ne.prop_map(SObj::Max),
                    1 => Just(SObj::Satisfy),
                ]
                .boxed()
            } else {
                Just(SObj::Satisfy).boxed()
            };
            (Just(vars), cons, obj, any::<bool>(), any::<bool>(), any::<u64>())
        })
        .prop_map(|(vars, cons, obj, structural_logic, mark_all_used, point_seed)| {
            let cons = cons
                .into_iter()
                .enumerate()
                .map(|(i, ((lhs, rel, rhs, bare), naming))| SCons {
                    name: match naming {
                        0 => String::new(),
                        1 => format!("c{i}"),
                        _ => "dup".to_string(),
                    },
                    lhs,
                    rel,
                    rhs,
                    bare,
                })
                .collect();
            ModelCase {
                vars,
                cons,
                obj,
                structural_logic,
                mark_all_used,
                point_seed,
            }
        })
        .boxed()
}

/// Feasibility bias: moves the constant side of `expr rel constant` constraints so that a witness
/// point (derived from `point_seed`) satisfies them. Random constraint systems are mostly
/// infeasible; with the bias most models have feasible and infeasible points.
pub fn bias_feasible(mut case: ModelCase) -> ModelCase {
    let mut rng = XorShift::new(case.point_seed ^ 0x5bd1e995);
    let mut env = Env::new();
    for (name, dom) in &case.vars {
        let c = candidates(dom, &mut rng);
        // keep the witness small so that constants stay in the usual range
        let small: Vec<&Big> = c.iter().filter(|v| v.abs() <= big(8.0)).collect();
        let v = if small.is_empty() { c[rng.below(c.len())].clone() } else { small[rng.below(small.len())].clone() };
        env.insert(name.clone(), v);
    }
    for c in case.cons.iter_mut() {
        if c.bare {
            continue;
        }
        let slack = big_frac(rng.below(5) as i64, 4);
        let quantise = |v: Big| -> Option<f64> {
            // keep constants dyadic with a small denominator
            let f = v.to_f64()?;
            let q = (f * 4.0).round() / 4.0;
            if q.abs() <= 64.0 { Some(q) } else { None }
        };
        match (&c.lhs, &c.rhs) {
            (e, SExp::Num(_)) if !matches!(e, SExp::Num(_)) => {
                let Some(v) = e.eval(&env) else { continue };
                let target = match c.rel {
                    Cmp::Le | Cmp::Lt => v + slack,
                    Cmp::Ge | Cmp::Gt => v - slack,
                    Cmp::Eq => v,
                };
                // rounding must not break the direction
                if let Some(q) = quantise(target.clone()) {
                    let ok = match c.rel {
                        Cmp::Le | Cmp::Lt => big(q) >= target - big_frac(0, 1) && c.rel.holds(&e.eval(&env).unwrap(), &big(q)),
                        Cmp::Ge | Cmp::Gt | Cmp::Eq => c.rel.holds(&e.eval(&env).unwrap(), &big(q)),
                    };
                    if ok {
                        c.rhs = SExp::Num(q);
                    }
                }
            }
            (SExp::Num(_), e) if !matches!(e, SExp::Num(_)) => {
                let Some(v) = e.eval(&env) else { continue };
                let target = match c.rel {
                    Cmp::Le | Cmp::Lt => v - slack, // constant <= e
                    Cmp::Ge | Cmp::Gt => v + slack,
                    Cmp::Eq => v,
                };
                if let Some(q) = quantise(target) {
                    if c.rel.holds(&big(q), &e.eval(&env).unwrap()) {
                        c.lhs = SExp::Num(q);
                    }
                }
            }
            _ => {}
        }
    }
    case
}

/// `model_case` with the feasibility bias applied to two thirds of the cases
pub fn model_case_biased(p: ModelParams) -> BoxedStrategy<ModelCase> {
    (model_case(p), 0u8..3)
        .prop_map(|(c, k)| if k == 0 { c } else { bias_feasible(c) })
        .boxed()
}
