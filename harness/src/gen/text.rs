//! Source-text printer for `SExp` with controlled spelling, written from the language
//! documentation (grammar + precedence table), not from rooc's printers.
//!
//! Precedence (loosest to tightest): {implies (right), iff (left)} < or < xor < and < {+ -} < {* /}
//! < prefix {-, not}. A parenthesis pair is *required* around a child when
//!   * the child binds looser than the parent, or
//!   * left child, same level, and the child's operator is right-associative, or
//!   * right child, same level, and the parent's operator is left-associative, or
//!   * the parent is a prefix operator and the child is any operator (incl. another prefix one,
//!     the grammar admits a single prefix operator per operand).

use crate::gen::lin::Dom;
use crate::oracle::sem::SExp;

#[derive(Clone, Copy, Debug, PartialEq, Eq)]
pub enum Op {
    Implies,
    Iff,
    Or,
    Xor,
    And,
    Add,
    Sub,
    Mul,
    Div,
}

impl Op {
    pub fn level(self) -> u8 {
        match self {
            Op::Implies | Op::Iff => 1,
            Op::Or => 2,
            Op::Xor => 3,
            Op::And => 4,
            Op::Add | Op::Sub => 5,
            Op::Mul | Op::Div => 6,
        }
    }
    pub fn right_assoc(self) -> bool {
        matches!(self, Op::Implies)
    }
    pub fn keyword(self) -> &'static str {
        match self {
            Op::Implies => "implies",
            Op::Iff => "iff",
            Op::Or => "or",
            Op::Xor => "xor",
            Op::And => "and",
            Op::Add => "+",
            Op::Sub => "-",
            Op::Mul => "*",
            Op::Div => "/",
        }
    }
    pub fn symbol(self) -> &'static str {
        match self {
            Op::Implies => "->",
            Op::Iff => "<->",
            Op::Or => "||",
            Op::And => "&&",
            o => o.keyword(),
        }
    }
}

/// Spelling choices. `bits` is consumed one decision at a time (deterministic for a case).
#[derive(Clone, Debug)]
pub struct Style {
    /// numeric constants that are written through a named `where` constant
    pub consts: Vec<(String, f64)>,
    pub bits: u64,
    pub redundant_parens: bool,
    pub symbols: bool,
    pub implicit_mul: bool,
    pub blocks_for_nary: bool,
}

impl Style {
    pub fn minimal() -> Style {
        Style {
            consts: vec![],
            bits: 0,
            redundant_parens: false,
            symbols: false,
            implicit_mul: false,
            blocks_for_nary: true,
        }
    }
    pub fn from_bits(bits: u64) -> Style {
        Style {
            consts: vec![],
            bits: bits >> 4,
            redundant_parens: bits & 1 == 1,
            symbols: bits & 2 == 2,
            implicit_mul: bits & 4 == 4,
            blocks_for_nary: bits & 8 == 8,
        }
    }
    fn flip(&mut self) -> bool {
        let b = self.bits & 1 == 1;
        self.bits = (self.bits >> 1) | ((self.bits & 1) << 62);
        b
    }
}

pub fn num_text(v: f64) -> String {
    // only called with finite, non-negative values; Rust's Display never uses an exponent
    format!("{}", v)
}

fn top_op(e: &SExp) -> Option<Op> {
    Some(match e {
        SExp::Add(..) => Op::Add,
        SExp::Sub(..) => Op::Sub,
        SExp::Mul(..) => Op::Mul,
        SExp::Div(..) => Op::Div,
        SExp::And(v) if v.len() == 2 => Op::And,
        SExp::Or(v) if v.len() == 2 => Op::Or,
        SExp::Xor(..) => Op::Xor,
        SExp::Implies(..) => Op::Implies,
        SExp::Iff(..) => Op::Iff,
        _ => return None,
    })
}

fn is_prefix(e: &SExp) -> bool {
    match e {
        SExp::Neg(_) | SExp::Not(_) => true,
        SExp::Num(v) => *v < 0.0 || (*v == 0.0 && v.is_sign_negative()),
        _ => false,
    }
}

#[derive(Clone, Copy, PartialEq, Eq)]
enum Ctx {
    Top,
    Left(Op),
    Right(Op),
    Prefix,
}

fn logic_op(op: Op) -> bool {
    matches!(op, Op::And | Op::Or | Op::Xor | Op::Implies | Op::Iff)
}

/// In a logic position the constants are the boolean literals (the type checker takes no numbers
/// there).
fn logic_literal(e: &SExp) -> Option<&'static str> {
    match e {
        SExp::Num(v) if *v == 1.0 => Some("true"),
        SExp::Num(v) if *v == 0.0 && !v.is_sign_negative() => Some("false"),
        _ => None,
    }
}

fn needs_parens(e: &SExp, ctx: Ctx) -> bool {
    match ctx {
        Ctx::Top => false,
        Ctx::Prefix => top_op(e).is_some() || is_prefix(e),
        Ctx::Left(p) => match top_op(e) {
            Some(c) => c.level() < p.level() || (c.level() == p.level() && c.right_assoc()),
            None => false,
        },
        Ctx::Right(p) => match top_op(e) {
            Some(c) => c.level() < p.level() || (c.level() == p.level() && !p.right_assoc()),
            None => false,
        },
    }
}

pub fn print(e: &SExp, style: &mut Style) -> String {
    go(e, Ctx::Top, style)
}

pub fn print_min(e: &SExp) -> String {
    go(e, Ctx::Top, &mut Style::minimal())
}

fn go(e: &SExp, ctx: Ctx, st: &mut Style) -> String {
    let body = body(e, st);
    let mut wrap = needs_parens(e, ctx);
    if !wrap && st.redundant_parens && ctx != Ctx::Top && st.flip() && st.flip() {
        wrap = true;
    }
    if wrap {
        format!("({body})")
    } else {
        body
    }
}

fn op_text(op: Op, st: &mut Style) -> &'static str {
    if st.symbols && st.flip() {
        op.symbol()
    } else {
        op.keyword()
    }
}

fn bin(op: Op, a: &SExp, b: &SExp, st: &mut Style) -> String {
    let side = |e: &SExp, ctx: Ctx, st: &mut Style| match (logic_op(op), logic_literal(e)) {
        (true, Some(lit)) => lit.to_string(),
        _ => go(e, ctx, st),
    };
    let l = side(a, Ctx::Left(op), st);
    let r = side(b, Ctx::Right(op), st);
    format!("{l} {} {r}", op_text(op, st))
}

fn list(es: &[SExp], st: &mut Style) -> String {
    es.iter().map(|e| go(e, Ctx::Top, st)).collect::<Vec<_>>().join(", ")
}

fn logic_list(es: &[SExp], st: &mut Style) -> String {
    es.iter()
        .map(|e| match logic_literal(e) {
            Some(lit) => lit.to_string(),
            None => go(e, Ctx::Top, st),
        })
        .collect::<Vec<_>>()
        .join(", ")
}

fn body(e: &SExp, st: &mut Style) -> String {
    match e {
        SExp::Num(v) if st.consts.iter().any(|c| c.1 == *v && c.1.is_sign_negative() == v.is_sign_negative()) => {
            st.consts.iter().find(|c| c.1 == *v).unwrap().0.clone()
        }
        SExp::Num(v) => {
            if *v < 0.0 || (*v == 0.0 && v.is_sign_negative()) {
                format!("-{}", num_text(-*v))
            } else {
                num_text(*v)
            }
        }
        SExp::Var(n) => n.clone(),
        SExp::Neg(x) => format!("-{}", go(x, Ctx::Prefix, st)),
        SExp::Not(x) => {
            let inner = match logic_literal(x) {
                Some(lit) => lit.to_string(),
                None => go(x, Ctx::Prefix, st),
            };
            if st.symbols && st.flip() {
                format!("!{inner}")
            } else {
                format!("not {inner}")
            }
        }
        SExp::Add(a, b) => bin(Op::Add, a, b, st),
        SExp::Sub(a, b) => bin(Op::Sub, a, b, st),
        SExp::Mul(a, b) => {
            // implicit multiplication: a non-negative literal directly followed by a variable or a
            // parenthesised expression forms one factor (`2x`, `2(x + 1)`)
            if st.implicit_mul {
                if let SExp::Num(c) = &**a {
                    if *c >= 0.0 && !c.is_sign_negative() {
                        match &**b {
                            SExp::Var(n) if !n.contains('_') => return format!("{}{}", num_text(*c), n),
                            SExp::Add(..) | SExp::Sub(..) => {
                                return format!("{}({})", num_text(*c), go(b, Ctx::Top, st))
                            }
                            _ => {}
                        }
                    }
                }
            }
            bin(Op::Mul, a, b, st)
        }
        SExp::Div(a, b) => bin(Op::Div, a, b, st),
        SExp::Abs(x) => format!("abs {{ {} }}", go(x, Ctx::Top, st)),
        SExp::Min(es) => format!("min {{ {} }}", list(es, st)),
        SExp::Max(es) => format!("max {{ {} }}", list(es, st)),
        SExp::And(es) => {
            if es.len() == 2 && !(st.blocks_for_nary && st.flip()) {
                bin(Op::And, &es[0], &es[1], st)
            } else {
                format!("all {{ {} }}", logic_list(es, st))
            }
        }
        SExp::Or(es) => {
            if es.len() == 2 && !(st.blocks_for_nary && st.flip()) {
                bin(Op::Or, &es[0], &es[1], st)
            } else {
                format!("any {{ {} }}", logic_list(es, st))
            }
        }
        SExp::Xor(a, b) => bin(Op::Xor, a, b, st),
        SExp::Implies(a, b) => bin(Op::Implies, a, b, st),
        SExp::Iff(a, b) => bin(Op::Iff, a, b, st),
    }
}

fn bound_text(v: f64) -> String {
    if v < 0.0 {
        format!("-{}", num_text(-v))
    } else {
        num_text(v)
    }
}

pub fn dom_text(d: &Dom) -> String {
    // a lower bound alone may be written with one argument; which spelling is used depends on the
    // bound itself so that the text of a case is stable
    let one_argument = |a: f64| ((a * 4.0) as i64).rem_euclid(2) == 0;
    match d {
        Dom::Bool => "Boolean".into(),
        Dom::Int(a, b) => format!("IntegerRange({}, {})", a, b),
        Dom::Real(None, None) => "Real".into(),
        Dom::Real(Some(a), None) if one_argument(*a) => format!("Real({})", bound_text(*a)),
        Dom::NonNeg(a, None) if *a != 0.0 && one_argument(*a) => format!("NonNegativeReal({})", bound_text(*a)),
        Dom::Real(a, b) => format!(
            "Real({}, {})",
            a.map(bound_text).unwrap_or_else(|| "MinusInfinity".into()),
            b.map(bound_text).unwrap_or_else(|| "Infinity".into())
        ),
        Dom::NonNeg(a, None) if *a == 0.0 => "NonNegativeReal".into(),
        Dom::NonNeg(a, b) => format!(
            "NonNegativeReal({}, {})",
            bound_text(*a),
            b.map(bound_text).unwrap_or_else(|| "Infinity".into())
        ),
    }
}
