//! Linear-model cases: the shared generated value for C04 C05 C13 C14 C15 C17 C20.
//!
//! A `LinCase` is plain data (so it serialises into replay files); `to_rooc` builds the
//! `LinearModel` through rooc's public API, `to_problem` the exact-rational twin.

use crate::oracle::rat::{big, Big, Problem, Rel, Row};
use indexmap::IndexMap;
use proptest::prelude::*;
use rooc::model_transformer::DomainVariable;
use rooc::{Comparison, InputSpan, LinearConstraint, LinearModel, OptimizationType, VariableType};
use serde::{Deserialize, Serialize};

#[derive(Clone, Debug, Serialize, Deserialize, PartialEq)]
pub enum Dom {
    Bool,
    Int(i32, i32),
    /// `None` = infinite on that side
    Real(Option<f64>, Option<f64>),
    /// lower bound (>= 0), upper bound
    NonNeg(f64, Option<f64>),
}

impl Dom {
    pub fn to_rooc(&self) -> VariableType {
        match self {
            Dom::Bool => VariableType::Boolean,
            Dom::Int(a, b) => VariableType::IntegerRange(*a, *b),
            Dom::Real(a, b) => VariableType::Real(
                a.unwrap_or(f64::NEG_INFINITY),
                b.unwrap_or(f64::INFINITY),
            ),
            Dom::NonNeg(a, b) => VariableType::NonNegativeReal(*a, b.unwrap_or(f64::INFINITY)),
        }
    }
    pub fn from_rooc(t: &VariableType) -> Dom {
        // -inf lower / +inf upper mean "no bound"; any other non-finite value (a lower bound of
        // +inf, NaN) is kept as it is and makes the domain empty (`is_degenerate`)
        let lo = |v: f64| if v == f64::NEG_INFINITY { None } else { Some(v) };
        let hi = |v: f64| if v == f64::INFINITY { None } else { Some(v) };
        match t {
            VariableType::Boolean => Dom::Bool,
            VariableType::IntegerRange(a, b) => Dom::Int(*a, *b),
            VariableType::Real(a, b) => Dom::Real(lo(*a), hi(*b)),
            VariableType::NonNegativeReal(a, b) => Dom::NonNeg(*a, hi(*b)),
        }
    }
    /// a bound that is NaN or infinite on the wrong side: no value satisfies the domain
    pub fn is_degenerate(&self) -> bool {
        match self {
            Dom::Bool | Dom::Int(_, _) => false,
            Dom::Real(a, b) => a.map(|v| !v.is_finite()).unwrap_or(false) || b.map(|v| !v.is_finite()).unwrap_or(false),
            Dom::NonNeg(a, b) => !a.is_finite() || b.map(|v| !v.is_finite()).unwrap_or(false),
        }
    }
    pub fn is_discrete(&self) -> bool {
        matches!(self, Dom::Bool | Dom::Int(_, _))
    }
    /// effective (lower, upper) as exact rationals
    pub fn bounds(&self) -> (Option<Big>, Option<Big>) {
        match self {
            Dom::Bool => (Some(big(0.0)), Some(big(1.0))),
            Dom::Int(a, b) => (Some(big(*a as f64)), Some(big(*b as f64))),
            Dom::Real(a, b) => (a.map(big), b.map(big)),
            Dom::NonNeg(a, b) => (Some(big(a.max(0.0))), b.map(big)),
        }
    }
    pub fn bounds_f64(&self) -> (f64, f64) {
        match self {
            Dom::Bool => (0.0, 1.0),
            Dom::Int(a, b) => (*a as f64, *b as f64),
            Dom::Real(a, b) => (a.unwrap_or(f64::NEG_INFINITY), b.unwrap_or(f64::INFINITY)),
            Dom::NonNeg(a, b) => (a.max(0.0), b.unwrap_or(f64::INFINITY)),
        }
    }
}

#[derive(Clone, Copy, Debug, Serialize, Deserialize, PartialEq, Eq)]
pub enum R {
    Le,
    Ge,
    Eq,
}

impl R {
    pub fn to_rooc(self) -> Comparison {
        match self {
            R::Le => Comparison::LessOrEqual,
            R::Ge => Comparison::GreaterOrEqual,
            R::Eq => Comparison::Equal,
        }
    }
    pub fn to_rel(self) -> Rel {
        match self {
            R::Le => Rel::Le,
            R::Ge => Rel::Ge,
            R::Eq => Rel::Eq,
        }
    }
    pub fn holds(self, lhs: f64, rhs: f64, tol: f64) -> bool {
        match self {
            R::Le => lhs <= rhs + tol,
            R::Ge => lhs >= rhs - tol,
            R::Eq => (lhs - rhs).abs() <= tol,
        }
    }
}

#[derive(Clone, Copy, Debug, Serialize, Deserialize, PartialEq, Eq)]
pub enum Sense {
    Min,
    Max,
    Satisfy,
}

#[derive(Clone, Debug, Serialize, Deserialize)]
pub struct LinRow {
    pub name: String,
    pub coef: Vec<f64>,
    pub rel: R,
    pub rhs: f64,
}

#[derive(Clone, Debug, Serialize, Deserialize)]
pub struct LinCase {
    pub vars: Vec<(String, Dom)>,
    pub rows: Vec<LinRow>,
    pub obj: Vec<f64>,
    pub offset: f64,
    pub sense: Sense,
}

impl LinCase {
    pub fn n(&self) -> usize {
        self.vars.len()
    }

    /// Builds the rooc model through the public constructors.
    pub fn to_rooc(&self) -> LinearModel {
        self.to_rooc_with(|_, r| r.to_rooc())
    }

    /// The same, with the relation of row i chosen by the caller (strict relations exist in the
    /// linear model although no generator of feasible sets uses them).
    pub fn to_rooc_with(&self, rel_of: impl Fn(usize, R) -> Comparison) -> LinearModel {
        let sense = match self.sense {
            Sense::Min => OptimizationType::Min,
            Sense::Max => OptimizationType::Max,
            Sense::Satisfy => OptimizationType::Satisfy,
        };
        if self.offset == 0.0 {
            let mut m = LinearModel::new();
            for (name, dom) in &self.vars {
                m.add_variable(name, dom.to_rooc());
            }
            for (i, r) in self.rows.iter().enumerate() {
                m.add_named_constraint(r.coef.clone(), rel_of(i, r.rel), r.rhs, &r.name);
            }
            m.set_objective(self.obj.clone(), sense);
            m
        } else {
            let mut domain: IndexMap<String, DomainVariable> = IndexMap::new();
            for (name, dom) in &self.vars {
                domain.insert(
                    name.clone(),
                    DomainVariable::new(dom.to_rooc(), InputSpan::default()),
                );
            }
            let rows = self
                .rows
                .iter()
                .enumerate()
                .map(|(i, r)| {
                    let mut c = r.coef.clone();
                    c.resize(self.n(), 0.0);
                    LinearConstraint::new_with_name(c, rel_of(i, r.rel), r.rhs, r.name.clone())
                })
                .collect();
            let mut obj = self.obj.clone();
            obj.resize(self.n(), 0.0);
            LinearModel::new_from_parts(
                obj,
                sense,
                self.offset,
                rows,
                self.vars.iter().map(|v| v.0.clone()).collect(),
                domain,
            )
        }
    }

    pub fn from_rooc(m: &LinearModel) -> LinCase {
        let vars = m
            .variables()
            .iter()
            .map(|v| {
                (
                    v.clone(),
                    Dom::from_rooc(m.domain().get(v).expect("domain entry").get_type()),
                )
            })
            .collect();
        let rows = m
            .constraints()
            .iter()
            .map(|c| LinRow {
                name: c.name(),
                coef: c.coefficients().clone(),
                rel: match c.constraint_type() {
                    Comparison::LessOrEqual | Comparison::Less => R::Le,
                    Comparison::GreaterOrEqual | Comparison::Greater => R::Ge,
                    Comparison::Equal => R::Eq,
                },
                rhs: c.rhs(),
            })
            .collect();
        LinCase {
            vars,
            rows,
            obj: m.objective().clone(),
            offset: m.objective_offset(),
            sense: match m.optimization_type() {
                OptimizationType::Min => Sense::Min,
                OptimizationType::Max => Sense::Max,
                OptimizationType::Satisfy => Sense::Satisfy,
            },
        }
    }

    /// Exact twin. `Satisfy` becomes minimisation of the stated objective.
    pub fn to_problem(&self) -> Problem {
        let n = self.n();
        let mut p = Problem::new(n);
        for (i, (_, d)) in self.vars.iter().enumerate() {
            let (l, h) = d.bounds();
            p.lo[i] = l;
            p.hi[i] = h;
            p.int[i] = d.is_discrete();
        }
        for r in &self.rows {
            let mut coef: Vec<Big> = r.coef.iter().map(|c| big(*c)).collect();
            coef.resize(n, big(0.0));
            p.rows.push(Row {
                coef,
                rel: r.rel.to_rel(),
                rhs: big(r.rhs),
            });
        }
        for (i, c) in self.obj.iter().enumerate() {
            if i < n {
                p.obj[i] = big(*c);
            }
        }
        p.obj_const = big(self.offset);
        p.maximize = self.sense == Sense::Max;
        p
    }

    pub fn is_continuous(&self) -> bool {
        self.vars.iter().all(|v| !v.1.is_discrete())
    }

    pub fn eval_obj(&self, x: &[f64]) -> f64 {
        self.obj.iter().zip(x).map(|(c, v)| c * v).sum::<f64>() + self.offset
    }

    pub fn pretty(&self) -> String {
        let mut s = format!("{:?} ", self.sense);
        for (i, c) in self.obj.iter().enumerate() {
            if *c != 0.0 {
                s.push_str(&format!("{:+}*{} ", c, self.vars[i].0));
            }
        }
        if self.offset != 0.0 {
            s.push_str(&format!("{:+} ", self.offset));
        }
        s.push_str("| ");
        for r in &self.rows {
            if !r.name.is_empty() {
                s.push_str(&format!("{}: ", r.name));
            }
            for (i, c) in r.coef.iter().enumerate() {
                if *c != 0.0 {
                    s.push_str(&format!("{:+}*{} ", c, self.vars[i].0));
                }
            }
            s.push_str(&format!("{:?} {} ; ", r.rel, r.rhs));
        }
        s.push_str("| ");
        for (n, d) in &self.vars {
            s.push_str(&format!("{n}:{d:?} "));
        }
        s
    }
}

// ---------------------------------------------------------------------------------------------
// strategies

/// small integer coefficient, zero-heavy
pub fn coef_int(range: i32) -> BoxedStrategy<f64> {
    prop_oneof![
        3 => Just(0.0),
        8 => (-range..=range).prop_map(|v| v as f64),
        2 => prop_oneof![Just(1.0), Just(-1.0)],
    ]
    .boxed()
}

/// integer or quarter coefficients
pub fn coef_quarter(range: i32) -> BoxedStrategy<f64> {
    prop_oneof![
        3 => Just(0.0),
        6 => (-range..=range).prop_map(|v| v as f64),
        3 => (-4 * range..=4 * range).prop_map(|v| v as f64 / 4.0),
    ]
    .boxed()
}

#[derive(Clone, Copy, Debug)]
pub struct LinParams {
    pub max_vars: usize,
    pub max_rows: usize,
    pub coef_range: i32,
    pub quarters: bool,
    pub allow_discrete: bool,
    pub allow_satisfy: bool,
    pub allow_offset: bool,
    /// names: plain ("x0"), or also exotic ones (`$sl_1`, duplicates of generated row names...)
    pub exotic_names: bool,
    pub continuous_only: bool,
}

pub fn dom_strategy(p: LinParams) -> BoxedStrategy<Dom> {
    let lo = (-4i32..=3).prop_map(|v| v as f64);
    let cont = prop_oneof![
        3 => Just(Dom::NonNeg(0.0, None)),
        2 => Just(Dom::Real(None, None)),
        2 => (lo.clone(), 0i32..=6).prop_map(|(l, w)| Dom::Real(Some(l), Some(l + w as f64))),
        1 => lo.clone().prop_map(|l| Dom::Real(Some(l), None)),
        1 => lo.clone().prop_map(|l| Dom::Real(None, Some(l))),
        2 => (0i32..=3, 0i32..=5).prop_map(|(l, w)| Dom::NonNeg(l as f64, Some((l + w) as f64))),
        1 => (1i32..=3).prop_map(|l| Dom::NonNeg(l as f64, None)),
    ];
    if p.allow_discrete && !p.continuous_only {
        prop_oneof![
            5 => cont,
            3 => Just(Dom::Bool),
            3 => (-3i32..=3, 0i32..=4).prop_map(|(l, w)| Dom::Int(l, l + w)),
        ]
        .boxed()
    } else {
        cont.boxed()
    }
}

fn var_name(i: usize, exotic: bool) -> BoxedStrategy<String> {
    if exotic {
        prop_oneof![
            12 => Just(format!("x{i}")),
            1 => Just(format!("$sl_{}", i + 1)),
            1 => Just(format!("$px{i}")),
            1 => Just(format!("$mx{i}")),
            1 => Just(format!("y_{i}")),
        ]
        .boxed()
    } else {
        Just(format!("x{i}")).boxed()
    }
}

fn row_name(i: usize, exotic: bool) -> BoxedStrategy<String> {
    if exotic {
        prop_oneof![
            5 => Just(String::new()),
            4 => Just(format!("r{i}")),
            1 => Just("dup".to_string()),
            1 => Just(format!("c{}", i + 1)),
            1 => Just(format!("c{}", i + 2)),
            1 => Just(format!("__r{i}")),
        ]
        .boxed()
    } else {
        prop_oneof![1 => Just(String::new()), 1 => Just(format!("r{i}"))].boxed()
    }
}

pub fn lin_case(p: LinParams) -> BoxedStrategy<LinCase> {
    let c = move || {
        if p.quarters {
            coef_quarter(p.coef_range)
        } else {
            coef_int(p.coef_range)
        }
    };
    (if p.max_vars >= 1 { 0..=p.max_vars } else { 0..=0 }, 0..=p.max_rows)
        .prop_flat_map(move |(nv, nr)| {
            let vars: Vec<BoxedStrategy<(String, Dom)>> = (0..nv)
                .map(|i| (var_name(i, p.exotic_names), dom_strategy(p)).boxed())
                .collect();
            let rows: Vec<BoxedStrategy<LinRow>> = (0..nr)
                .map(|i| {
                    (
                        row_name(i, p.exotic_names),
                        proptest::collection::vec(c(), nv),
                        prop_oneof![4 => Just(R::Le), 3 => Just(R::Ge), 2 => Just(R::Eq)],
                        c(),
                        // structure tweaks: 0 none, 1 zero row, 2 duplicate of previous row
                        prop_oneof![8 => Just(0u8), 1 => Just(1u8), 1 => Just(2u8)],
                    )
                        .prop_map(|(name, coef, rel, rhs, tweak)| LinRow {
                            name,
                            coef: if tweak == 1 {
                                coef.iter().map(|_| 0.0).collect()
                            } else {
                                coef
                            },
                            rel,
                            rhs: if tweak == 2 { f64::NAN } else { rhs },
                        })
                        .boxed()
                })
                .collect();
            let sense = if p.allow_satisfy {
                prop_oneof![4 => Just(Sense::Min), 4 => Just(Sense::Max), 1 => Just(Sense::Satisfy)]
                    .boxed()
            } else {
                prop_oneof![Just(Sense::Min), Just(Sense::Max)].boxed()
            };
            let offset = if p.allow_offset {
                prop_oneof![3 => Just(0.0), 1 => c()].boxed()
            } else {
                Just(0.0).boxed()
            };
            (
                vars,
                rows,
                proptest::collection::vec(c(), nv),
                offset,
                sense,
                // feasibility bias: a witness point and per-row slacks; applied to ~2/3 of the models
                (
                    prop_oneof![2 => Just(true), 1 => Just(false)],
                    proptest::collection::vec(-3i32..=3, nv),
                    proptest::collection::vec(0i32..=3, nr),
                ),
            )
        })
        .prop_map(|(mut vars, mut rows, obj, offset, sense, (bias, witness, slacks))| {
            // de-duplicate variable names (rooc's LinearModel API assumes unique names)
            let mut seen = std::collections::BTreeSet::new();
            for (i, v) in vars.iter_mut().enumerate() {
                if !seen.insert(v.0.clone()) {
                    v.0 = format!("x{i}");
                    seen.insert(v.0.clone());
                }
            }
            // NaN rhs marks "duplicate the previous row"
            for i in 0..rows.len() {
                if rows[i].rhs.is_nan() {
                    if i > 0 {
                        let prev = rows[i - 1].clone();
                        rows[i].coef = prev.coef;
                        rows[i].rel = prev.rel;
                        rows[i].rhs = prev.rhs;
                    } else {
                        rows[i].rhs = 0.0;
                    }
                }
            }
            if bias {
                // clamp the witness into each domain, then move right-hand sides so that it satisfies
                // every row (with a little slack): most models become feasible, rows stay arbitrary
                let w: Vec<f64> = vars
                    .iter()
                    .zip(&witness)
                    .map(|((_, d), w)| {
                        let (lo, hi) = d.bounds_f64();
                        (*w as f64).max(lo).min(hi)
                    })
                    .collect();
                for (r, s) in rows.iter_mut().zip(&slacks) {
                    let lhs: f64 = r.coef.iter().zip(&w).map(|(c, v)| c * v).sum();
                    r.rhs = match r.rel {
                        R::Le => lhs + *s as f64,
                        R::Ge => lhs - *s as f64,
                        R::Eq => lhs,
                    };
                }
            }
            LinCase {
                vars,
                rows,
                obj,
                offset,
                sense,
            }
        })
        .boxed()
}
