pub mod lin;
