pub mod data;
pub mod lin;
pub mod model;
pub mod mutate;
pub mod text;
