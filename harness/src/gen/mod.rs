pub mod data;
pub mod lin;
pub mod model;
pub mod text;
