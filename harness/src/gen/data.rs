//! Data-driven programs and their hand-unrolled twins (C06, reused by C11 / C18 / C19).
//!
//! A program is a list of independent *pieces*. Each piece owns its data (`where` constants),
//! its variable families and one or more constraints written with iteration / aggregation
//! constructs. `render` produces the data-driven text; `unroll` evaluates the constructs by the
//! documented semantics - written here from the language documentation, no rooc code involved -
//! and produces the text a person would write by hand: literal names, literal coefficients, one
//! constraint per iteration, one declaration per variable.

use proptest::prelude::*;
use serde::{Deserialize, Serialize};

#[derive(Clone, Debug, Serialize, Deserialize, PartialEq)]
pub enum DomKind {
    Bool,
    Int(i32, i32),
    NonNeg,
    Real(i32, i32),
}

impl DomKind {
    pub fn text(&self) -> String {
        match self {
            DomKind::Bool => "Boolean".into(),
            DomKind::Int(a, b) => format!("IntegerRange({a}, {b})"),
            DomKind::NonNeg => "NonNegativeReal".into(),
            DomKind::Real(a, b) => format!("Real({a}, {b})"),
        }
    }
}

#[derive(Clone, Copy, Debug, Serialize, Deserialize, PartialEq)]
pub enum Rel {
    Le,
    Ge,
    Eq,
}

impl Rel {
    pub fn text(self) -> &'static str {
        match self {
            Rel::Le => "<=",
            Rel::Ge => ">=",
            Rel::Eq => "=",
        }
    }
}

#[derive(Clone, Debug, Serialize, Deserialize)]
pub enum Piece {
    /// sum(i in from..to) { coef(i) * x_i } rel rhs   (coef: 0 a[i], 1 i, 2 constant 3, 3 a[i] * 2, 4 a[i] + i)
    SumRange { arr: Vec<f64>, from: usize, to: usize, inclusive: bool, use_len: bool, coef: u8, rel: Rel, rhs: f64, dom: DomKind, objective: u8 },
    /// c_i: x_i rel a[i] for i in 0..len(a)        (shift: x_{i + 1} - x_i >= a[i] for i in 0..len(a) - 1)
    Family { arr: Vec<f64>, rel: Rel, named: bool, shift: bool, dom: DomKind },
    /// sum((v, i) in enumerate(a)) { v * x_i } rel rhs
    Enumerate { arr: Vec<f64>, rel: Rel, rhs: f64, dom: DomKind },
    /// sum(i in 0..R, j in (i|0)..C) { m[i][j] * y_i_j } rel rhs   and   r_i_j: y_i_j <= m[i][j] for i in 0..R, j in 0..C
    Nested { m: Vec<Vec<i64>>, dependent: bool, family: bool, rel: Rel, rhs: f64, dom: DomKind },
    /// graph constructs; edges (from, to, weight)
    Graph { nodes: Vec<String>, edges: Vec<(usize, usize, Option<f64>)>, form: u8, rhs: f64 },
    /// scoped blocks: 0 max, 1 min, 2 avg, 3 prod of constants, 4 any, 5 all, 6 xor
    Block { arr: Vec<f64>, kind: u8, rel: Rel, rhs: f64 },
    /// sum((p, q) in zip(a, b)) { p * q * y } rel rhs
    Zip { a: Vec<f64>, b: Vec<f64>, rel: Rel, rhs: f64 },
    /// sum(i in op(s1, s2)) { x_i } rel rhs   op: 0 union, 1 intersection, 2 difference
    Sets { s1: Vec<u8>, s2: Vec<u8>, op: u8, rel: Rel, rhs: f64 },
    /// aggregations over a range that depends on the outer index and starts empty:
    /// `prod(j in 0..i) { a[j] } * x_i + sum(j in 0..i) { a[j] * x_j }` (empty product = 1, empty sum = 0)
    Triangular { arr: Vec<f64>, inclusive: bool, rel: Rel, rhs: f64 },
    /// computed subscripts: `x_{a[i]}`, `x_{len(a) - 1}`, `x_{i * 2}` (an array access, a call and a
    /// product as the index of an indexed name)
    Subscript { idx: Vec<u8>, rel: Rel },
    /// an array of strings (with escapes) that is only measured: `x <= len(s)`
    Strings { items: Vec<u8>, rel: Rel },
}

#[derive(Clone, Debug, Serialize, Deserialize)]
pub struct DataProg {
    pub pieces: Vec<Piece>,
    /// leave out the fixed closing row: families that iterate over nothing then leave an empty
    /// constraint section
    #[serde(default)]
    pub bare: bool,
}

pub fn num(v: f64) -> String {
    if v < 0.0 {
        format!("-{}", -v)
    } else {
        format!("{v}")
    }
}

fn arr_text(a: &[f64]) -> String {
    // integers are written without a fractional part: the array is then an integer array. In an
    // array that holds a fraction, whole elements are written with a decimal point (`[2.5, 4.0]`):
    // `[2.5, 4]` would mix integers and numbers, which the type checker types as `Any[]`
    let fractional = a.iter().any(|v| v.fract() != 0.0);
    format!("[{}]", a.iter().map(|v| if fractional && v.fract() == 0.0 { format!("{}.0", num(*v)) } else { num(*v) }).collect::<Vec<_>>().join(", "))
}

/// one linear term list `c0 * v0 + c1 * v1 ...` (or `0` when empty)
fn lin(terms: &[(f64, String)]) -> String {
    if terms.is_empty() {
        return "0".into();
    }
    terms
        .iter()
        .map(|(c, v)| format!("{} * {v}", num(*c)))
        .collect::<Vec<_>>()
        .join(" + ")
}

#[derive(Default, Clone, Debug)]
pub struct Texts {
    pub objective: Option<String>,
    pub constraints: Vec<String>,
    pub wheres: Vec<String>,
    pub decls: Vec<String>,
}

impl Texts {
    pub fn program(&self) -> String {
        let mut s = String::new();
        s.push_str(self.objective.as_deref().unwrap_or("min 0"));
        s.push_str("\ns.t.\n");
        for c in &self.constraints {
            s.push_str(&format!("    {c}\n"));
        }
        if !self.wheres.is_empty() {
            s.push_str("where\n");
            for w in &self.wheres {
                s.push_str(&format!("    {w}\n"));
            }
        }
        if !self.decls.is_empty() {
            s.push_str("define\n");
            for d in &self.decls {
                s.push_str(&format!("    {d}\n"));
            }
        }
        s.trim_end().to_string()
    }
}

impl DataProg {
    /// (data-driven text, hand-unrolled text)
    pub fn texts(&self) -> (String, String) {
        let mut d = Texts::default();
        let mut u = Texts::default();
        for (k, p) in self.pieces.iter().enumerate() {
            p.emit(k, &mut d, &mut u);
        }
        // a constraint section cannot be empty in the language: a fixed last row keeps both
        // texts well-formed when every family iterates over nothing
        for t in [&mut d, &mut u] {
            if !self.bare {
                t.constraints.push("last: zz <= 1".to_string());
            }
            t.decls.push("zz as Boolean".to_string());
        }
        (d.program(), u.program())
    }

    /// the literal variable names the program denotes (one per unrolled declaration)
    pub fn expected_names(&self) -> Vec<String> {
        let mut d = Texts::default();
        let mut u = Texts::default();
        for (k, p) in self.pieces.iter().enumerate() {
            p.emit(k, &mut d, &mut u);
        }
        let mut names: Vec<String> = u.decls.iter().filter_map(|l| l.split(' ').next().map(|s| s.to_string())).collect();
        names.push("zz".to_string());
        names
    }

    pub fn labels(&self) -> Vec<String> {
        let mut v = vec![];
        for p in &self.pieces {
            v.push(
                match p {
                    Piece::SumRange { from, to, inclusive, .. } => {
                        if (*inclusive && to < from) || (!*inclusive && to <= from) {
                            "empty-range"
                        } else {
                            "sum-range"
                        }
                    }
                    Piece::Family { shift: true, .. } => "index-arithmetic",
                    Piece::Family { .. } => "constraint-family",
                    Piece::Enumerate { .. } => "enumerate-destructuring",
                    Piece::Nested { dependent: true, .. } => "nested-dependent",
                    Piece::Nested { .. } => "nested-multi-index",
                    Piece::Graph { .. } => "graph",
                    Piece::Block { .. } => "scoped-block",
                    Piece::Zip { .. } => "zip",
                    Piece::Sets { .. } => "set-functions",
                    Piece::Triangular { .. } => "empty-and-growing-aggregations",
                    Piece::Subscript { .. } => "computed-subscripts",
                    Piece::Strings { .. } => "string-array",
                }
                .to_string(),
            );
        }
        v
    }
}

impl Piece {
    fn emit(&self, k: usize, d: &mut Texts, u: &mut Texts) {
        match self {
            Piece::SumRange { arr, from, to, inclusive, use_len, coef, rel, rhs, dom, objective } => {
                let n = arr.len();
                let (from, to) = (*from.min(&n), *to.min(&n.saturating_sub(usize::from(*inclusive))));
                let idx: Vec<usize> = if *inclusive { (from..=to).collect() } else { (from..to).collect() };
                let idx: Vec<usize> = if *use_len { (0..n).collect() } else { idx };
                let range = if *use_len {
                    format!("0..len(a{k})")
                } else if *inclusive {
                    format!("{from}..={to}")
                } else {
                    format!("{from}..{to}")
                };
                let (coef_text, value): (String, Box<dyn Fn(usize) -> f64>) = match coef % 5 {
                    0 => (format!("a{k}[i]"), Box::new(|i| arr[i])),
                    1 => ("i".to_string(), Box::new(|i| i as f64)),
                    2 => ("3".to_string(), Box::new(|_| 3.0)),
                    3 => (format!("a{k}[i] * 2"), Box::new(|i| arr[i] * 2.0)),
                    _ => (format!("(a{k}[i] + i)"), Box::new(|i| arr[i] + i as f64)),
                };
                let _ = &value;
                // the coefficient is written with the same operands in the same order as the driven
                // text, so that rooc folds it with the same roundings
                let literal = |i: usize| match coef % 5 {
                    0 => num(arr[i]),
                    1 => i.to_string(),
                    2 => "3".to_string(),
                    3 => format!("{} * 2", num(arr[i])),
                    _ => format!("({} + {i})", num(arr[i])),
                };
                let terms: Vec<String> = idx.iter().map(|&i| format!("{} * x{k}_{i}", literal(i))).collect();
                d.wheres.push(format!("let a{k} = {}", arr_text(arr)));
                d.constraints.push(format!("sum(i in {range}) {{ {coef_text} * x{k}_i }} {} {}", rel.text(), num(*rhs)));
                u.constraints.push(format!("{} {} {}", if terms.is_empty() { "0".to_string() } else { terms.join(" + ") }, rel.text(), num(*rhs)));
                if *objective > 0 && d.objective.is_none() {
                    let kw = if *objective == 1 { "min" } else { "max" };
                    d.objective = Some(format!("{kw} sum(i in 0..len(a{k})) {{ a{k}[i] * x{k}_i }} + 1"));
                    let all: Vec<(f64, String)> = (0..n).map(|i| (arr[i], format!("x{k}_{i}"))).collect();
                    u.objective = Some(format!("{kw} {} + 1", lin(&all)));
                }
                d.decls.push(format!("x{k}_i as {} for i in 0..{}", dom.text(), n));
                for i in 0..n {
                    u.decls.push(format!("x{k}_{i} as {}", dom.text()));
                }
            }
            Piece::Family { arr, rel, named, shift, dom } => {
                let n = arr.len();
                d.wheres.push(format!("let a{k} = {}", arr_text(arr)));
                let name = if *named { format!("c{k}_i: ") } else { String::new() };
                if *shift {
                    d.constraints.push(format!("{name}x{k}_{{i + 1}} - x{k}_i {} a{k}[i] for i in 0..len(a{k}) - 1", rel.text()));
                    for i in 0..n.saturating_sub(1) {
                        let name = if *named { format!("c{k}_{i}: ") } else { String::new() };
                        u.constraints.push(format!("{name}x{k}_{} - x{k}_{i} {} {}", i + 1, rel.text(), num(arr[i])));
                    }
                } else {
                    d.constraints.push(format!("{name}x{k}_i {} a{k}[i] for i in 0..len(a{k})", rel.text()));
                    for i in 0..n {
                        let name = if *named { format!("c{k}_{i}: ") } else { String::new() };
                        u.constraints.push(format!("{name}x{k}_{i} {} {}", rel.text(), num(arr[i])));
                    }
                }
                d.decls.push(format!("x{k}_i as {} for i in 0..len(a{k})", dom.text()));
                for i in 0..n {
                    u.decls.push(format!("x{k}_{i} as {}", dom.text()));
                }
            }
            Piece::Enumerate { arr, rel, rhs, dom } => {
                d.wheres.push(format!("let a{k} = {}", arr_text(arr)));
                d.constraints.push(format!("sum((v, i) in enumerate(a{k})) {{ v * x{k}_i }} {} {}", rel.text(), num(*rhs)));
                let terms: Vec<(f64, String)> = arr.iter().enumerate().map(|(i, v)| (*v, format!("x{k}_{i}"))).collect();
                u.constraints.push(format!("{} {} {}", lin(&terms), rel.text(), num(*rhs)));
                d.decls.push(format!("x{k}_i as {} for (_, i) in enum(a{k})", dom.text()));
                for i in 0..arr.len() {
                    u.decls.push(format!("x{k}_{i} as {}", dom.text()));
                }
            }
            Piece::Nested { m, dependent, family, rel, rhs, dom } => {
                let r = m.len();
                let c = m.first().map(|x| x.len()).unwrap_or(0);
                let rows: Vec<String> = m.iter().map(|row| format!("[{}]", row.iter().map(|v| v.to_string()).collect::<Vec<_>>().join(", "))).collect();
                d.wheres.push(format!("let m{k} = [{}]", rows.join(", ")));
                let jfrom = if *dependent { "i" } else { "0" };
                let pairs: Vec<(usize, usize)> = (0..r).flat_map(|i| ((if *dependent { i } else { 0 })..c).map(move |j| (i, j))).collect();
                if *family {
                    d.constraints.push(format!("r{k}_i_j: y{k}_i_j {} m{k}[i][j] for i in 0..{r}, j in {jfrom}..{c}", rel.text()));
                    for (i, j) in &pairs {
                        u.constraints.push(format!("r{k}_{i}_{j}: y{k}_{i}_{j} {} {}", rel.text(), m[*i][*j]));
                    }
                } else {
                    d.constraints.push(format!("sum(i in 0..{r}, j in {jfrom}..{c}) {{ m{k}[i][j] * y{k}_i_j }} {} {}", rel.text(), num(*rhs)));
                    let terms: Vec<(f64, String)> = pairs.iter().map(|(i, j)| (m[*i][*j] as f64, format!("y{k}_{i}_{j}"))).collect();
                    u.constraints.push(format!("{} {} {}", lin(&terms), rel.text(), num(*rhs)));
                }
                d.decls.push(format!("y{k}_i_j as {} for i in 0..{r}, j in 0..{c}", dom.text()));
                for i in 0..r {
                    for j in 0..c {
                        u.decls.push(format!("y{k}_{i}_{j} as {}", dom.text()));
                    }
                }
            }
            Piece::Graph { nodes, edges, form, rhs } => {
                // adjacency in declaration order; duplicate destinations are not allowed by the language
                let mut adj: Vec<Vec<(usize, Option<f64>)>> = vec![vec![]; nodes.len()];
                for (a, b, w) in edges {
                    let (a, b) = (a % nodes.len(), b % nodes.len());
                    if !adj[a].iter().any(|e| e.0 == b) {
                        adj[a].push((b, *w));
                    }
                }
                let g: Vec<String> = nodes
                    .iter()
                    .enumerate()
                    .map(|(i, n)| {
                        if adj[i].is_empty() {
                            n.clone()
                        } else {
                            format!(
                                "{n} -> [{}]",
                                adj[i]
                                    .iter()
                                    .map(|(b, w)| match w {
                                        Some(w) => format!("{}: {}", nodes[*b], num(*w)),
                                        None => nodes[*b].clone(),
                                    })
                                    .collect::<Vec<_>>()
                                    .join(", ")
                            )
                        }
                    })
                    .collect();
                d.wheres.push(format!("let G{k} = Graph {{ {} }}", g.join(", ")));
                // edges in node order, then declaration order; default weight 1
                let all_edges: Vec<(usize, usize, f64)> =
                    (0..nodes.len()).flat_map(|a| adj[a].iter().map(move |(b, w)| (a, *b, w.unwrap_or(1.0)))).collect();
                match form % 5 {
                    0 => {
                        d.constraints.push(format!("x{k}_u + x{k}_v <= 1 for (u, v) in edges(G{k})"));
                        for (a, b, _) in &all_edges {
                            u.constraints.push(format!("x{k}_{} + x{k}_{} <= 1", nodes[*a], nodes[*b]));
                        }
                    }
                    1 => {
                        d.constraints.push(format!("sum((u, v, w) in edges(G{k})) {{ w * x{k}_u + x{k}_v }} <= {}", num(*rhs)));
                        let terms: Vec<String> = all_edges.iter().map(|(a, b, w)| format!("{} * x{k}_{} + x{k}_{}", num(*w), nodes[*a], nodes[*b])).collect();
                        u.constraints.push(format!("{} <= {}", if terms.is_empty() { "0".into() } else { terms.join(" + ") }, num(*rhs)));
                    }
                    2 => {
                        d.constraints.push(format!("sum(u in nodes(G{k})) {{ x{k}_u }} >= {}", num(*rhs)));
                        let terms: Vec<(f64, String)> = nodes.iter().map(|n| (1.0, format!("x{k}_{n}"))).collect();
                        u.constraints.push(format!("{} >= {}", terms.iter().map(|t| t.1.clone()).collect::<Vec<_>>().join(" + "), num(*rhs)));
                    }
                    3 => {
                        d.constraints.push(format!("x{k}_u + sum((_, v) in neigh_edges(u)) {{ x{k}_v }} >= 1 for u in nodes(G{k})"));
                        for (a, n) in nodes.iter().enumerate() {
                            let nb: Vec<String> = adj[a].iter().map(|(b, _)| format!("x{k}_{}", nodes[*b])).collect();
                            let sum = if nb.is_empty() { "0".to_string() } else { nb.join(" + ") };
                            u.constraints.push(format!("x{k}_{n} + {sum} >= 1"));
                        }
                    }
                    _ => {
                        let n0 = &nodes[0];
                        d.constraints.push(format!("sum((_, v, w) in neigh_edges_of(\"{n0}\", G{k})) {{ w * x{k}_v }} <= {}", num(*rhs)));
                        let terms: Vec<(f64, String)> = adj[0].iter().map(|(b, w)| (w.unwrap_or(1.0), format!("x{k}_{}", nodes[*b]))).collect();
                        u.constraints.push(format!("{} <= {}", lin(&terms), num(*rhs)));
                    }
                }
                d.decls.push(format!("x{k}_u as Boolean for u in nodes(G{k})"));
                for n in nodes {
                    u.decls.push(format!("x{k}_{n} as Boolean"));
                }
            }
            Piece::Block { arr, kind, rel, rhs } => {
                let n = arr.len();
                d.wheres.push(format!("let a{k} = {}", arr_text(arr)));
                match kind % 7 {
                    0 | 1 => {
                        let f = if kind % 7 == 0 { "max" } else { "min" };
                        d.constraints.push(format!("{f}(i in 0..len(a{k})) {{ a{k}[i] * x{k}_i }} {} {}", rel.text(), num(*rhs)));
                        let items: Vec<String> = (0..n).map(|i| format!("{} * x{k}_{i}", num(arr[i]))).collect();
                        u.constraints.push(format!("{f} {{ {} }} {} {}", items.join(", "), rel.text(), num(*rhs)));
                        d.decls.push(format!("x{k}_i as Real(-4, 6) for i in 0..{n}"));
                        for i in 0..n {
                            u.decls.push(format!("x{k}_{i} as Real(-4, 6)"));
                        }
                    }
                    2 => {
                        d.constraints.push(format!("avg(i in 0..{n}) {{ x{k}_i + a{k}[i] }} {} {}", rel.text(), num(*rhs)));
                        let items: Vec<String> = (0..n).map(|i| format!("x{k}_{i} + {}", num(arr[i]))).collect();
                        u.constraints.push(format!("avg {{ {} }} {} {}", items.join(", "), rel.text(), num(*rhs)));
                        d.decls.push(format!("x{k}_i as Real(-4, 6) for i in 0..{n}"));
                        for i in 0..n {
                            u.decls.push(format!("x{k}_{i} as Real(-4, 6)"));
                        }
                    }
                    3 => {
                        // product of data only (a product of variables is not linear)
                        d.constraints.push(format!("prod(i in 0..{n}) {{ a{k}[i] }} * x{k}_0 + sum(i in 1..=3) {{ i }} {} {}", rel.text(), num(*rhs)));
                        let p: f64 = arr.iter().product();
                        u.constraints.push(format!("{} * x{k}_0 + 6 {} {}", num(p), rel.text(), num(*rhs)));
                        d.decls.push(format!("x{k}_i as Real(-4, 6) for i in 0..1"));
                        u.decls.push(format!("x{k}_0 as Real(-4, 6)"));
                    }
                    f => {
                        let (name, uname) = match f {
                            4 => ("any", "any"),
                            5 => ("all", "all"),
                            _ => ("xor", "xor"),
                        };
                        d.constraints.push(format!("{name}(i in 0..{n}) {{ b{k}_i }}"));
                        let items: Vec<String> = (0..n).map(|i| format!("b{k}_{i}")).collect();
                        u.constraints.push(format!("{uname} {{ {} }}", items.join(", ")));
                        d.decls.push(format!("b{k}_i as Boolean for i in 0..{n}"));
                        for i in 0..n {
                            u.decls.push(format!("b{k}_{i} as Boolean"));
                        }
                    }
                }
            }
            Piece::Zip { a, b, rel, rhs } => {
                d.wheres.push(format!("let a{k} = {}", arr_text(a)));
                d.wheres.push(format!("let b{k} = {}", arr_text(b)));
                d.constraints.push(format!("sum((p, q) in zip(a{k}, b{k})) {{ p * q * z{k} }} {} {}", rel.text(), num(*rhs)));
                let terms: Vec<String> = a.iter().zip(b).map(|(p, q)| format!("{} * {} * z{k}", num(*p), num(*q))).collect();
                u.constraints.push(format!("{} {} {}", if terms.is_empty() { "0".to_string() } else { terms.join(" + ") }, rel.text(), num(*rhs)));
                d.decls.push(format!("z{k} as Real(-9, 9)"));
                u.decls.push(format!("z{k} as Real(-9, 9)"));
            }
            Piece::Triangular { arr, inclusive, rel, rhs } => {
                let n = arr.len();
                d.wheres.push(format!("let a{k} = {}", arr_text(arr)));
                // inclusive: j runs over 0..=i-1 written as `1..=i` shifted by one, so that the first
                // range `1..=0` is empty as well
                let (range, at) = if *inclusive { ("1..=i", format!("a{k}[j - 1]")) } else { ("0..i", format!("a{k}[j]")) };
                let xj = if *inclusive { format!("x{k}_{{j - 1}}") } else { format!("x{k}_j") };
                d.constraints.push(format!(
                    "t{k}_i: prod(j in {range}) {{ {at} }} * x{k}_i + sum(j in {range}) {{ {at} * {xj} }} {} {} for i in 0..len(a{k})",
                    rel.text(),
                    num(*rhs)
                ));
                for i in 0..n {
                    let p: f64 = arr[..i].iter().product();
                    let terms: Vec<(f64, String)> = (0..i).map(|j| (arr[j], format!("x{k}_{j}"))).collect();
                    u.constraints.push(format!("t{k}_{i}: {} * x{k}_{i} + {} {} {}", num(p), lin(&terms), rel.text(), num(*rhs)));
                }
                d.decls.push(format!("x{k}_i as Real(-4, 6) for i in 0..len(a{k})"));
                for i in 0..n {
                    u.decls.push(format!("x{k}_{i} as Real(-4, 6)"));
                }
            }
            Piece::Strings { items, rel } => {
                const POOL: [&str; 6] = ["\"plain\"", "\"a\\\"b\"", "\"c\\\\d\"", "\"e\\nf\"", "\"\"", "\"tab\\t\\u0041\""];
                let lits: Vec<&str> = items.iter().map(|i| POOL[*i as usize % POOL.len()]).collect();
                d.wheres.push(format!("let s{k} = [{}]", lits.join(", ")));
                u.wheres.push(format!("let s{k} = [{}]", lits.join(", ")));
                d.constraints.push(format!("q{k}: w{k} {} len(s{k})", rel.text()));
                u.constraints.push(format!("q{k}: w{k} {} {}", rel.text(), lits.len()));
                d.decls.push(format!("w{k} as Real(-4, 6)"));
                u.decls.push(format!("w{k} as Real(-4, 6)"));
            }
            Piece::Subscript { idx, rel } => {
                let n = idx.len();
                let width = (idx.iter().map(|v| *v as usize).max().unwrap_or(0) + 1).max(n).max(2 * n.saturating_sub(1) + 1);
                d.wheres.push(format!("let a{k} = [{}]", idx.iter().map(|v| v.to_string()).collect::<Vec<_>>().join(", ")));
                d.constraints.push(format!(
                    "s{k}_i: x{k}_{{a{k}[i]}} + x{k}_{{len(a{k}) - 1}} - x{k}_{{i * 2}} {} i + 1 for i in 0..len(a{k})",
                    rel.text()
                ));
                for i in 0..n {
                    u.constraints.push(format!("s{k}_{i}: x{k}_{} + x{k}_{} - x{k}_{} {} {}", idx[i], n - 1, i * 2, rel.text(), i + 1));
                }
                d.decls.push(format!("x{k}_i as Real(-4, 6) for i in 0..{width}"));
                for i in 0..width {
                    u.decls.push(format!("x{k}_{i} as Real(-4, 6)"));
                }
            }
            Piece::Sets { s1, s2, op, rel, rhs } => {
                // op / 3: which of the two arrays is written with decimal points (4.0 for 4): the set
                // functions compare by value, whatever the numeric kind of the elements
                let f = |v: &Vec<u8>, dec: bool| format!("[{}]", v.iter().map(|x| if dec { format!("{x}.0") } else { x.to_string() }).collect::<Vec<_>>().join(", "));
                d.wheres.push(format!("let s{k} = {}", f(s1, op / 3 == 2 || op / 3 == 3)));
                d.wheres.push(format!("let t{k} = {}", f(s2, op / 3 == 1 || op / 3 == 3)));
                let (name, items): (&str, Vec<u8>) = match op % 3 {
                    0 => {
                        let mut r: Vec<u8> = vec![];
                        for x in s1.iter().chain(s2) {
                            if !r.contains(x) {
                                r.push(*x);
                            }
                        }
                        ("union", r)
                    }
                    1 => ("intersection", s1.iter().filter(|x| s2.contains(x)).cloned().collect()),
                    _ => ("difference", s1.iter().filter(|x| !s2.contains(x)).cloned().collect()),
                };
                d.constraints.push(format!("sum(i in {name}(s{k}, t{k})) {{ x{k}_i }} {} {}", rel.text(), num(*rhs)));
                let terms: Vec<String> = items.iter().map(|i| format!("x{k}_{i}")).collect();
                u.constraints.push(format!("{} {} {}", if terms.is_empty() { "0".to_string() } else { terms.join(" + ") }, rel.text(), num(*rhs)));
                d.decls.push(format!("x{k}_i as NonNegativeReal for i in 0..10"));
                for i in 0..10 {
                    u.decls.push(format!("x{k}_{i} as NonNegativeReal"));
                }
            }
        }
    }
}

// ---------------------------------------------------------------------------------------------
// strategies

fn arr(ints_only: bool) -> BoxedStrategy<Vec<f64>> {
    // array literals hold unsigned numbers only (the grammar has no sign inside `[ ]`)
    let ints = proptest::collection::vec((0i32..=9).prop_map(|v| v as f64), 1..=5);
    if ints_only {
        ints.boxed()
    } else {
        prop_oneof![
            4 => ints,
            2 => proptest::collection::vec((0i32..=18).prop_map(|v| v as f64 / 2.0 + 0.25), 1..=4),
            // halves: fractions next to whole values in one number array
            1 => proptest::collection::vec((0i32..=18).prop_map(|v| v as f64 / 2.0), 2..=4),
        ]
        .boxed()
    }
}

/// arrays that may hold magnitudes a printer would switch to an exponent for; only for pieces whose
/// unrolled twin writes the operands literally (no arithmetic on the harness side, so both texts
/// make rooc do the same roundings)
fn arr_wide() -> BoxedStrategy<Vec<f64>> {
    prop_oneof![
        6 => arr(false),
        1 => proptest::collection::vec(prop_oneof![Just(0.00000049), Just(0.000000001), Just(123456789.125), Just(2500000000000000.5), Just(0.1), Just(1.5)], 1..=3),
    ]
    .boxed()
}

fn rel() -> BoxedStrategy<Rel> {
    prop_oneof![Just(Rel::Le), Just(Rel::Ge), Just(Rel::Eq)].boxed()
}

fn dom() -> BoxedStrategy<DomKind> {
    prop_oneof![
        Just(DomKind::Bool),
        (0i32..=2, 1i32..=5).prop_map(|(l, w)| DomKind::Int(l, l + w)),
        Just(DomKind::NonNeg),
        (-5i32..=0, 1i32..=9).prop_map(|(l, w)| DomKind::Real(l, l + w)),
    ]
    .boxed()
}

fn rhs() -> BoxedStrategy<f64> {
    (-8i32..=20).prop_map(|v| v as f64).boxed()
}

pub fn piece() -> BoxedStrategy<Piece> {
    let node_names = prop_oneof![
        Just(vec!["A".to_string(), "B".to_string(), "C".to_string()]),
        Just(vec!["A".to_string(), "B".to_string(), "C".to_string(), "D".to_string()]),
        Just(vec!["Rome".to_string(), "Oslo".to_string()]),
        Just(vec!["n1".to_string(), "n2".to_string(), "n3".to_string()]),
    ];
    prop_oneof![
        4 => (arr_wide(), 0usize..4, 0usize..6, any::<bool>(), any::<bool>(), 0u8..5, rel(), rhs(), dom(), 0u8..3).prop_map(
            |(arr, from, to, inclusive, use_len, coef, rel, rhs, dom, objective)| Piece::SumRange { arr, from, to, inclusive, use_len, coef, rel, rhs, dom, objective }
        ),
        3 => (arr_wide(), rel(), any::<bool>(), any::<bool>(), dom()).prop_map(|(arr, rel, named, shift, dom)| Piece::Family { arr, rel, named, shift, dom }),
        2 => (arr_wide(), rel(), rhs(), dom()).prop_map(|(arr, rel, rhs, dom)| Piece::Enumerate { arr, rel, rhs, dom }),
        3 => ((1usize..=3, 1usize..=3).prop_flat_map(|(r, c)| proptest::collection::vec(proptest::collection::vec(0i64..=9, c), r)), any::<bool>(), any::<bool>(), rel(), rhs(), dom())
            .prop_map(|(m, dependent, family, rel, rhs, dom)| Piece::Nested { m, dependent, family, rel, rhs, dom }),
        3 => (node_names, proptest::collection::vec((0usize..4, 0usize..4, proptest::option::of((1i32..=9).prop_map(|v| v as f64 / 2.0))), 0..=5), 0u8..5, rhs())
            .prop_map(|(nodes, edges, form, rhs)| Piece::Graph { nodes, edges, form, rhs }),
        3 => (arr(false), 0u8..7, rel(), rhs()).prop_map(|(arr, kind, rel, rhs)| Piece::Block { arr, kind, rel, rhs }),
        1 => (arr(false), arr(false), rel(), rhs()).prop_map(|(a, b, rel, rhs)| Piece::Zip { a, b, rel, rhs }),
        2 => (arr(false), any::<bool>(), rel(), rhs()).prop_map(|(arr, inclusive, rel, rhs)| Piece::Triangular { arr, inclusive, rel, rhs }),
        2 => (proptest::collection::vec(0u8..6, 1..=4), rel()).prop_map(|(idx, rel)| Piece::Subscript { idx, rel }),
        1 => (proptest::collection::vec(0u8..6, 1..=3), rel()).prop_map(|(items, rel)| Piece::Strings { items, rel }),
        2 => (proptest::collection::vec(0u8..10, 0..=4), proptest::collection::vec(0u8..10, 0..=4), prop_oneof![3 => 0u8..3, 2 => 3u8..12], rel(), rhs()).prop_map(|(mut s1, mut s2, op, rel, rhs)| {
            s1.dedup();
            s2.dedup();
            Piece::Sets { s1, s2, op, rel, rhs }
        }),
    ]
    .boxed()
}

pub fn data_prog() -> BoxedStrategy<DataProg> {
    (proptest::collection::vec(piece(), 1..=3), proptest::bool::weighted(0.25)).prop_map(|(pieces, bare)| DataProg { pieces, bare }).boxed()
}
