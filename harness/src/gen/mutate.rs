//! Token-level mutation of valid programs (C18, C19). Deterministic: every choice comes from the
//! generated `Mutation` values.

use serde::{Deserialize, Serialize};

/// a lexical token of the source text or the text between tokens
#[derive(Clone, Debug, PartialEq)]
pub enum Piece {
    Word(String),   // identifier-like (may contain `_`, `$`, digits)
    Number(String), // digits with optional fraction
    Other(String),  // whitespace, punctuation, operators, strings
}

pub fn split(text: &str) -> Vec<Piece> {
    let cs: Vec<char> = text.chars().collect();
    let mut out = vec![];
    let mut i = 0;
    while i < cs.len() {
        let c = cs[i];
        if c.is_alphabetic() || c == '_' || c == '$' {
            let st = i;
            while i < cs.len() && (cs[i].is_alphanumeric() || cs[i] == '_' || cs[i] == '$') {
                i += 1;
            }
            out.push(Piece::Word(cs[st..i].iter().collect()));
        } else if c.is_ascii_digit() {
            let st = i;
            while i < cs.len() && (cs[i].is_ascii_digit() || (cs[i] == '.' && i + 1 < cs.len() && cs[i + 1].is_ascii_digit())) {
                i += 1;
            }
            out.push(Piece::Number(cs[st..i].iter().collect()));
        } else if c == '"' {
            let st = i;
            i += 1;
            while i < cs.len() && cs[i] != '"' {
                i += 1;
            }
            i = (i + 1).min(cs.len());
            out.push(Piece::Other(cs[st..i].iter().collect()));
        } else {
            out.push(Piece::Other(c.to_string()));
            i += 1;
        }
    }
    out
}

pub fn join(p: &[Piece]) -> String {
    p.iter()
        .map(|x| match x {
            Piece::Word(s) | Piece::Number(s) | Piece::Other(s) => s.as_str(),
        })
        .collect()
}

#[derive(Clone, Debug, Serialize, Deserialize)]
pub enum Mutation {
    /// replace the `at`-th word/number token by `with` (index into the caller's replacement list)
    Replace { at: u16, with: u16 },
    Delete { at: u16 },
    Duplicate { at: u16 },
    Swap { at: u16 },
    /// insert raw text after the `at`-th token
    Insert { at: u16, with: u16 },
}

const KEYWORDS: [&str; 12] = ["min", "max", "solve", "s", "t", "where", "define", "let", "as", "for", "in", "subject"];

/// positions of tokens that are operands (not structural keywords)
fn operand_positions(p: &[Piece]) -> Vec<usize> {
    p.iter()
        .enumerate()
        .filter(|(_, x)| match x {
            Piece::Word(w) => !KEYWORDS.contains(&w.as_str()),
            Piece::Number(_) => true,
            Piece::Other(_) => false,
        })
        .map(|(i, _)| i)
        .collect()
}

pub fn apply(text: &str, muts: &[Mutation], replacements: &[&str]) -> String {
    let mut p = split(text);
    for m in muts {
        match m {
            Mutation::Replace { at, with } => {
                let pos = operand_positions(&p);
                if pos.is_empty() || replacements.is_empty() {
                    continue;
                }
                let i = pos[*at as usize % pos.len()];
                p[i] = Piece::Other(replacements[*with as usize % replacements.len()].to_string());
            }
            Mutation::Delete { at } => {
                if !p.is_empty() {
                    let i = *at as usize % p.len();
                    p.remove(i);
                }
            }
            Mutation::Duplicate { at } => {
                if !p.is_empty() {
                    let i = *at as usize % p.len();
                    let x = p[i].clone();
                    p.insert(i, x);
                }
            }
            Mutation::Swap { at } => {
                if p.len() >= 2 {
                    let i = *at as usize % (p.len() - 1);
                    // swap with the next non-space token
                    let j = (i + 1..p.len()).find(|&j| !matches!(&p[j], Piece::Other(s) if s.trim().is_empty())).unwrap_or(i + 1);
                    p.swap(i, j);
                }
            }
            Mutation::Insert { at, with } => {
                if !p.is_empty() && !replacements.is_empty() {
                    let i = *at as usize % p.len();
                    p.insert(i + 1, Piece::Other(format!(" {} ", replacements[*with as usize % replacements.len()])));
                }
            }
        }
    }
    join(&p)
}
