//! Token-level mutation of valid programs (C18, C19). Deterministic: every choice comes from the
//! generated `Mutation` values.

use serde::{Deserialize, Serialize};

/// a lexical token of the source text or the text between tokens
#[derive(Clone, Debug, PartialEq)]
pub enum Piece {
    Word(String),   // identifier-like (may contain `_`, `$`, digits)
    Number(String), // digits with optional fraction
    Other(String),  // whitespace, punctuation, operators, strings
}

pub fn split(text: &str) -> Vec<Piece> {
    let cs: Vec<char> = text.chars().collect();
    let mut out = vec![];
    let mut i = 0;
    while i < cs.len() {
        let c = cs[i];
        if c.is_alphabetic() || c == '_' || c == '$' {
            let st = i;
            while i < cs.len() && (cs[i].is_alphanumeric() || cs[i] == '_' || cs[i] == '$') {
                i += 1;
            }
            out.push(Piece::Word(cs[st..i].iter().collect()));
        } else if c.is_ascii_digit() {
            let st = i;
            while i < cs.len() && (cs[i].is_ascii_digit() || (cs[i] == '.' && i + 1 < cs.len() && cs[i + 1].is_ascii_digit())) {
                i += 1;
            }
            out.push(Piece::Number(cs[st..i].iter().collect()));
        } else if c == '"' {
            let st = i;
            i += 1;
            while i < cs.len() && cs[i] != '"' {
                i += 1;
            }
            i = (i + 1).min(cs.len());
            out.push(Piece::Other(cs[st..i].iter().collect()));
        } else {
            out.push(Piece::Other(c.to_string()));
            i += 1;
        }
    }
    out
}

pub fn join(p: &[Piece]) -> String {
    p.iter()
        .map(|x| match x {
            Piece::Word(s) | Piece::Number(s) | Piece::Other(s) => s.as_str(),
        })
        .collect()
}

#[derive(Clone, Debug, Serialize, Deserialize)]
pub enum Mutation {
    /// replace the `at`-th word/number token by `with` (index into the caller's replacement list)
    Replace { at: u16, with: u16 },
    Delete { at: u16 },
    Duplicate { at: u16 },
    Swap { at: u16 },
    /// insert raw text after the `at`-th token
    Insert { at: u16, with: u16 },
    /// replace the `at`-th number token by `with` (index into the caller's list of numbers): the
    /// program stays syntactically valid
    ReplaceNumber { at: u16, with: u16 },
    /// replace the `at`-th non-keyword word by the `with`-th other word of the text
    ReplaceWord { at: u16, with: u16 },
    /// in the `at`-th indexed name (`x_i`, `y_i_j`) replace one index by a number of the caller's
    /// list, written bare (`x_7`) or as an expression (`x_{7 + 1}`, `x_{-7}`)
    ReplaceIndex { at: u16, with: u16, form: u8 },
    /// add one more name to the `at`-th destructuring pattern: `(p, q) in` becomes `(p, q, g9) in`
    GrowTuple { at: u16 },
    /// replace the `at`-th range `a..b` / `a..=b` whose bounds are single tokens by a whole range
    /// of the caller's list (the program stays syntactically valid)
    ReplaceRange { at: u16, with: u16 },
}

const KEYWORDS: [&str; 12] = ["min", "max", "solve", "s", "t", "where", "define", "let", "as", "for", "in", "subject"];

/// positions of tokens that are operands (not structural keywords)
fn operand_positions(p: &[Piece]) -> Vec<usize> {
    p.iter()
        .enumerate()
        .filter(|(_, x)| match x {
            Piece::Word(w) => !KEYWORDS.contains(&w.as_str()),
            Piece::Number(_) => true,
            Piece::Other(_) => false,
        })
        .map(|(i, _)| i)
        .collect()
}

pub fn apply(text: &str, muts: &[Mutation], replacements: &[&str]) -> String {
    apply_ext(text, muts, replacements, &[])
}

/// small and extreme ranges, both spellings, both signs, empty, reversed, singleton, at the limits
/// of the integer types
pub const RANGES: [&str; 20] = [
    "9223372036854775806..=9223372036854775807", "9223372036854775805..9223372036854775807", "9223372036854775807..=9223372036854775807",
    "(-9223372036854775807 - 1)..(-9223372036854775806)", "(-9223372036854775807 - 1)..=(-9223372036854775807)", "18446744073709551613..18446744073709551615",
    "18446744073709551614..=18446744073709551615", "2147483646..=2147483647", "4294967295..=4294967296", "-2147483649..=-2147483648",
    "5..=5", "5..5", "7..2", "0..=0", "-3..=-1", "-1..=1", "0..=9223372036854775807", "0.5..3", "0..2.5", "0..=2",
];

pub fn apply_ext(text: &str, muts: &[Mutation], replacements: &[&str], numbers: &[&str]) -> String {
    let mut p = split(text);
    for m in muts {
        match m {
            Mutation::Replace { at, with } => {
                let pos = operand_positions(&p);
                if pos.is_empty() || replacements.is_empty() {
                    continue;
                }
                let i = pos[*at as usize % pos.len()];
                p[i] = Piece::Other(replacements[*with as usize % replacements.len()].to_string());
            }
            Mutation::ReplaceNumber { at, with } => {
                let pos: Vec<usize> = p.iter().enumerate().filter(|(_, x)| matches!(x, Piece::Number(_))).map(|(i, _)| i).collect();
                if pos.is_empty() || numbers.is_empty() {
                    continue;
                }
                let i = pos[*at as usize % pos.len()];
                p[i] = Piece::Other(numbers[*with as usize % numbers.len()].to_string());
            }
            Mutation::ReplaceIndex { at, with, form } => {
                let pos: Vec<usize> = p
                    .iter()
                    .enumerate()
                    .filter(|(_, x)| matches!(x, Piece::Word(w) if w.trim_start_matches('_').contains('_')))
                    .map(|(i, _)| i)
                    .collect();
                if pos.is_empty() || numbers.is_empty() {
                    continue;
                }
                let i = pos[*at as usize % pos.len()];
                let Piece::Word(w) = &p[i] else { continue };
                let mut parts: Vec<String> = w.split('_').map(|s| s.to_string()).collect();
                let n = numbers[*with as usize % numbers.len()];
                // which index: the last one, or an earlier one when there are several
                let k = if parts.len() > 2 && form & 8 == 8 { parts.len() - 2 } else { parts.len() - 1 };
                parts[k] = match form % 4 {
                    0 => n.to_string(),
                    1 => format!("{{{n} + 1}}"),
                    2 => format!("{{-{n}}}"),
                    _ => format!("{{{n} * {n}}}"),
                };
                p[i] = Piece::Other(parts.join("_"));
            }
            Mutation::GrowTuple { at } => {
                // a ')' whose next non-space token is the word `in`
                let pos: Vec<usize> = (0..p.len())
                    .filter(|&i| {
                        matches!(&p[i], Piece::Other(s) if s == ")")
                            && matches!(p[i + 1..].iter().find(|x| !matches!(x, Piece::Other(s) if s.trim().is_empty())), Some(Piece::Word(w)) if w == "in")
                    })
                    .collect();
                if pos.is_empty() {
                    continue;
                }
                let i = pos[*at as usize % pos.len()];
                p.insert(i, Piece::Other(", g9".to_string()));
            }
            Mutation::ReplaceRange { at, with } => {
                // positions i of a bound token followed by `..` (`=`)? and another bound token
                let is_bound = |x: &Piece| matches!(x, Piece::Number(_)) || matches!(x, Piece::Word(w) if !KEYWORDS.contains(&w.as_str()));
                let dot = |x: &Piece| matches!(x, Piece::Other(s) if s == ".");
                let mut found: Vec<(usize, usize)> = vec![];
                for i in 0..p.len() {
                    if is_bound(&p[i]) && i + 3 < p.len() && dot(&p[i + 1]) && dot(&p[i + 2]) {
                        let mut j = i + 3;
                        if matches!(&p[j], Piece::Other(s) if s == "=") {
                            j += 1;
                        }
                        if j < p.len() && is_bound(&p[j]) {
                            found.push((i, j));
                        }
                    }
                }
                if found.is_empty() {
                    continue;
                }
                let (i, j) = found[*at as usize % found.len()];
                let r = RANGES[*with as usize % RANGES.len()];
                p.splice(i..=j, [Piece::Other(r.to_string())]);
            }
            Mutation::ReplaceWord { at, with } => {
                let pos: Vec<usize> = p
                    .iter()
                    .enumerate()
                    .filter(|(_, x)| matches!(x, Piece::Word(w) if !KEYWORDS.contains(&w.as_str())))
                    .map(|(i, _)| i)
                    .collect();
                if pos.len() < 2 {
                    continue;
                }
                let i = pos[*at as usize % pos.len()];
                let j = pos[*with as usize % pos.len()];
                p[i] = p[j].clone();
            }
            Mutation::Delete { at } => {
                if !p.is_empty() {
                    let i = *at as usize % p.len();
                    p.remove(i);
                }
            }
            Mutation::Duplicate { at } => {
                if !p.is_empty() {
                    let i = *at as usize % p.len();
                    let x = p[i].clone();
                    p.insert(i, x);
                }
            }
            Mutation::Swap { at } => {
                if p.len() >= 2 {
                    let i = *at as usize % (p.len() - 1);
                    // swap with the next non-space token
                    let j = (i + 1..p.len()).find(|&j| !matches!(&p[j], Piece::Other(s) if s.trim().is_empty())).unwrap_or(i + 1);
                    p.swap(i, j);
                }
            }
            Mutation::Insert { at, with } => {
                if !p.is_empty() && !replacements.is_empty() {
                    let i = *at as usize % p.len();
                    p.insert(i + 1, Piece::Other(format!(" {} ", replacements[*with as usize % replacements.len()])));
                }
            }
        }
    }
    join(&p)
}
