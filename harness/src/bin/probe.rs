use rooc::{solve_real_lp_problem_clarabel, Comparison, LinearModel, OptimizationType, VariableType};
fn main() {
    let mut m = LinearModel::new();
    m.add_variable("x0", VariableType::Real(0.0, f64::INFINITY));
    m.add_variable("x1", VariableType::real());
    m.add_variable("x2", VariableType::real());
    m.add_variable("x3", VariableType::NonNegativeReal(0.0, 5.0));
    m.add_constraint(vec![0.0, -1.0, 2.0, 1.0], Comparison::LessOrEqual, -4.0);
    m.set_objective(vec![0.0, 0.0, -2.0, 0.0], OptimizationType::Min);
    match solve_real_lp_problem_clarabel(&m) {
        Ok(s) => println!("Ok value {} {:?}", s.value(), s.assignment().iter().map(|a| a.value).collect::<Vec<_>>()),
        Err(e) => println!("Err {e}"),
    }
}
