use rooc::{solve_real_lp_problem_clarabel, Comparison, LinearModel, OptimizationType, VariableType};
fn main() {
    for obj in [vec![1.0, 0.0, 5.0], vec![1.0, 0.0, 0.0], vec![0.0, 0.0, 5.0], vec![1.0, 0.0, 1.0], vec![1.0, 0.0, -5.0]] {
        let mut m = LinearModel::new();
        m.add_variable("x0", VariableType::real());
        m.add_variable("x1", VariableType::real());
        m.add_variable("x2", VariableType::real());
        m.add_constraint(vec![0.0, -5.0, 4.0], Comparison::Equal, 0.0);
        m.set_objective(obj.clone(), OptimizationType::Min);
        match solve_real_lp_problem_clarabel(&m) {
            Ok(s) => println!("{obj:?}: Ok value {} {:?}", s.value(), s.assignment().iter().map(|a| a.value).collect::<Vec<_>>()),
            Err(e) => println!("{obj:?}: Err {e}"),
        }
    }
}
