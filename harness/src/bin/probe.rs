use rooc::*;
fn main() {
    let mut m = LinearModel::new();
    m.add_variable("x0", VariableType::non_negative_real());
    m.add_variable("x1", VariableType::real());
    m.add_constraint(vec![1.0, -4.0], Comparison::GreaterOrEqual, 0.0);
    m.add_constraint(vec![0.0, 0.0], Comparison::LessOrEqual, 0.0);
    m.add_constraint(vec![-1.0, 0.0], Comparison::LessOrEqual, 0.0);
    m.add_constraint(vec![3.0, 3.0], Comparison::GreaterOrEqual, 0.0);
    m.set_objective(vec![1.0, 1.0], OptimizationType::Min);
    let s = m.clone().into_standard_form().unwrap();
    println!("{}", s);
    let mut t = s.into_tableau().unwrap();
    println!("vars {:?}\nA {:?}\nb {:?}\nc {:?}\nbasis {:?} value {}", t.variables(), t.a_matrix(), t.b_vec(), t.c_vec(), t.in_basis(), t.current_value());
    loop {
        match t.step(&[]) {
            Ok(StepAction::Pivot{entering, leaving, ratio}) => println!("pivot {entering} {leaving} {ratio} -> value {} b {:?} basis {:?}", t.current_value(), t.b_vec(), t.in_basis()),
            Ok(StepAction::Finished) => { println!("finished"); break; }
            Err(e) => { println!("err {e}"); break; }
        }
    }
    println!("{:?}", solve_real_lp_problem_slow_simplex(&m, 1000).map(|s| s.value()));
}
