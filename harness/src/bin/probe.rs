use rooc::*;
fn main() {
    let m = LinearModel::new();
    for i in 0..5 {
        let m = m.clone();
        let r = std::panic::catch_unwind(move || match i {
            0 => format!("{:?}", solve_milp_lp_problem(&m).map(|s| s.value())),
            1 => format!("{:?}", auto_solver(&m).map(|s| s.value())),
            2 => format!("{:?}", solve_real_lp_problem_micro_lp(&m).map(|s| s.value())),
            3 => format!("{:?}", solve_real_lp_problem_clarabel(&m).map(|s| s.value())),
            _ => format!("{:?}", solve_real_lp_problem_slow_simplex(&m, 100).map(|s| s.value())),
        });
        println!("{i}: {:?}", r);
    }
}
