//! Seeded multi-threaded driver shared by every property: generation through proptest
//! strategies, shrinking, known-finding matching, replay files and evidence.
//!
//! A run is a pure function of (rooc tree, VERIF_SEED, tier): worker `k` of `WORKERS` uses a
//! ChaCha generator seeded from `(seed, k)` and owns a fixed slice of the case budget; results are
//! merged in worker order.

use proptest::strategy::{BoxedStrategy, Strategy, ValueTree};
use proptest::test_runner::{Config, RngAlgorithm, TestRng, TestRunner};
use serde::de::DeserializeOwned;
use serde::Serialize;
use std::collections::{BTreeMap, BTreeSet};
use std::panic::{catch_unwind, AssertUnwindSafe};
use std::path::PathBuf;
use std::sync::atomic::{AtomicBool, AtomicU64, Ordering};
use std::sync::{Arc, Mutex};
use std::time::{Duration, Instant};

pub const WORKERS: usize = 16;

#[derive(Clone, Copy, Debug, PartialEq, Eq)]
pub enum Tier {
    Quick,
    Thorough,
}

impl Tier {
    pub fn name(self) -> &'static str {
        match self {
            Tier::Quick => "quick",
            Tier::Thorough => "thorough",
        }
    }
}

#[derive(Clone, Debug)]
pub enum Outcome {
    /// The property held on this case.
    Pass {
        nontrivial: bool,
        labels: Vec<String>,
    },
    /// The case is outside the property's domain (e.g. rooc legitimately rejected the model).
    Skip(String),
    /// The property is violated. `signature` identifies the *kind* of failure (used to group,
    /// to match known findings and to keep shrinking on the same failure); `detail` is free text.
    Fail { signature: String, detail: String },
    /// Several independent discrepancies on one case (e.g. one per solver); each is grouped,
    /// matched against the known findings and reported on its own.
    Multi(Vec<(String, String)>),
}

impl Outcome {
    pub fn pass(nontrivial: bool, labels: &[&str]) -> Outcome {
        Outcome::Pass {
            nontrivial,
            labels: labels.iter().map(|s| s.to_string()).collect(),
        }
    }
    /// `Multi` when there are failures, otherwise the given pass.
    pub fn from_failures(fails: Vec<(String, String)>, nontrivial: bool, labels: Vec<String>) -> Outcome {
        if fails.is_empty() {
            Outcome::Pass { nontrivial, labels }
        } else {
            Outcome::Multi(fails)
        }
    }
    pub fn failures(&self) -> Vec<(String, String)> {
        match self {
            Outcome::Fail { signature, detail } => vec![(signature.clone(), detail.clone())],
            Outcome::Multi(v) => v.clone(),
            _ => vec![],
        }
    }
    pub fn fail(signature: impl Into<String>, detail: impl Into<String>) -> Outcome {
        Outcome::Fail {
            signature: signature.into(),
            detail: detail.into(),
        }
    }
}

pub trait Prop: Sync {
    type Case: Clone + std::fmt::Debug + Serialize + DeserializeOwned + Send + Sync + 'static;

    fn id(&self) -> &'static str;
    /// Generator for one tier.
    fn strategy(&self, tier: Tier) -> BoxedStrategy<Self::Case>;
    /// Number of generated cases for the tier (fixed work, not a time limit).
    fn budget(&self, tier: Tier) -> usize;
    /// Hand-written or enumerated cases that are always run first (directed strata, golden
    /// regressions). They count as evaluations.
    fn fixed_cases(&self, _tier: Tier) -> Vec<Self::Case> {
        vec![]
    }
    /// The oracle.
    fn check(&self, case: &Self::Case) -> Outcome;
    /// Canonical text of a case (distinctness is counted on it; also used for samples).
    fn canon(&self, case: &Self::Case) -> String {
        serde_json::to_string(case).unwrap_or_default()
    }
    /// How cases are generated and what makes one non-trivial.
    fn rule(&self) -> String;
    fn assumptions(&self) -> Vec<String> {
        vec![]
    }
    /// Seconds one case may run before the harness watchdog fires.
    fn case_timeout_s(&self) -> u64 {
        120
    }
    /// Whether a watchdog hit is a violation of this property (termination properties) or a
    /// harness problem (exit 2).
    fn hang_is_violation(&self) -> bool {
        false
    }
    /// Extra key/values for the evidence `coverage` object.
    fn extra_coverage(&self) -> serde_json::Map<String, serde_json::Value> {
        serde_json::Map::new()
    }
    /// Set `exhaustive` in the evidence when the fixed cases enumerate a finite stratum fully.
    fn exhaustive_stratum(&self, _tier: Tier) -> Option<String> {
        None
    }
}

#[derive(Clone, Debug, serde::Deserialize)]
pub struct KnownFinding {
    pub kind: String, // "known" | "fixed"
    pub property: String,
    #[serde(default)]
    pub id: String,
    /// exact signature, or prefix when it ends with '*'
    #[serde(default)]
    pub signature: String,
    #[serde(default)]
    pub what: String,
    #[serde(default)]
    pub commit: String,
}

pub fn verif_root() -> PathBuf {
    std::env::var("VERIF_ROOT")
        .map(PathBuf::from)
        .unwrap_or_else(|_| PathBuf::from("/verif"))
}

pub fn load_known(prop: &str) -> Vec<KnownFinding> {
    let path = verif_root().join("known_findings.json");
    let Ok(text) = std::fs::read_to_string(&path) else {
        return vec![];
    };
    let all: Vec<KnownFinding> = match serde_json::from_str(&text) {
        Ok(v) => v,
        Err(e) => {
            eprintln!("harness error: cannot parse {}: {e}", path.display());
            std::process::exit(2);
        }
    };
    all.into_iter()
        .filter(|k| k.kind == "known" && k.property == prop)
        .collect()
}

fn matches_known<'a>(known: &'a [KnownFinding], signature: &str) -> Option<&'a KnownFinding> {
    known.iter().find(|k| {
        if let Some(prefix) = k.signature.strip_suffix('*') {
            signature.starts_with(prefix)
        } else if let Some(suffix) = k.signature.strip_prefix('*') {
            signature.ends_with(suffix)
        } else {
            k.signature == signature
        }
    })
}

pub fn fnv(s: &str) -> u64 {
    let mut h: u64 = 0xcbf29ce484222325;
    for b in s.as_bytes() {
        h ^= *b as u64;
        h = h.wrapping_mul(0x100000001b3);
    }
    h
}

fn panic_message(payload: Box<dyn std::any::Any + Send>) -> String {
    if let Some(s) = payload.downcast_ref::<&str>() {
        s.to_string()
    } else if let Some(s) = payload.downcast_ref::<String>() {
        s.clone()
    } else {
        "non-string panic payload".to_string()
    }
}

/// Runs the oracle, turning a panic anywhere below it into a failure with a stable signature.
pub fn guarded_check<P: Prop>(prop: &P, case: &P::Case) -> Outcome {
    match catch_unwind(AssertUnwindSafe(|| prop.check(case))) {
        Ok(o) => o,
        Err(payload) => {
            let msg = panic_message(payload);
            let short: String = msg.chars().take(90).collect();
            // digits vary with the input, keep the signature stable
            let stable: String = short
                .chars()
                .map(|c| if c.is_ascii_digit() { '#' } else { c })
                .collect();
            Outcome::fail(format!("panic:{stable}"), format!("panicked: {msg}"))
        }
    }
}

#[derive(Default)]
struct WorkerResult {
    evaluations: u64,
    passes: u64,
    nontrivial_hashes: BTreeSet<u64>,
    labels: BTreeMap<String, u64>,
    skips: BTreeMap<String, u64>,
    samples: Vec<String>,
    /// signature -> (shrunk case json, detail, occurrences, shrink steps)
    failures: BTreeMap<String, (String, String, u64, u64)>,
}

struct Slot {
    started: Mutex<Option<(Instant, String)>>,
}

pub struct RunArgs {
    pub tier: Tier,
    pub seed: u64,
    pub replay: Option<PathBuf>,
}

fn shrink<P: Prop>(
    prop: &P,
    tree: &mut Box<dyn ValueTree<Value = P::Case>>,
    signature: &str,
    touch: &dyn Fn(&P::Case),
) -> (P::Case, String, u64) {
    // proptest's documented simplify/complicate loop, re-running the oracle; a candidate is
    // accepted only when it fails with the *same* signature, so shrinking never drifts from one
    // defect to another.
    let mut best = tree.current();
    let mut best_detail = String::new();
    let mut steps = 0u64;
    // failures that are expensive to reproduce (hangs) get a small shrinking budget
    let mut budget = if signature.contains("Hang") { 4u32 } else { 400u32 };
    let started = Instant::now();
    if !tree.simplify() {
        return (best, best_detail, steps);
    }
    loop {
        if budget == 0 {
            break;
        }
        budget -= 1;
        if started.elapsed().as_secs() > 90 {
            break;
        }
        let candidate = tree.current();
        touch(&candidate);
        let still_fails = match guarded_check(prop, &candidate)
            .failures()
            .into_iter()
            .find(|(s, _)| s == signature)
        {
            Some((_, detail)) => {
                best = candidate;
                best_detail = detail;
                true
            }
            None => false,
        };
        steps += 1;
        if still_fails {
            if !tree.simplify() {
                break;
            }
        } else if !tree.complicate() {
            break;
        }
    }
    (best, best_detail, steps)
}

fn record<P: Prop>(prop: &P, res: &mut WorkerResult, case: &P::Case, outcome: Outcome) -> Vec<(String, String)> {
    res.evaluations += 1;
    match outcome {
        Outcome::Pass { nontrivial, labels } => {
            res.passes += 1;
            for l in labels {
                *res.labels.entry(l).or_default() += 1;
            }
            if nontrivial {
                let canon = prop.canon(case);
                if res.nontrivial_hashes.insert(fnv(&canon)) && res.samples.len() < 3 {
                    res.samples.push(canon);
                }
            }
            vec![]
        }
        Outcome::Skip(reason) => {
            *res.skips.entry(reason).or_default() += 1;
            vec![]
        }
        o => o.failures(),
    }
}

pub fn run<P: Prop>(prop: &P, args: &RunArgs) -> i32 {
    let id = prop.id();
    let known = load_known(id);
    let t0 = Instant::now();

    if let Some(path) = &args.replay {
        return replay(prop, path, &known);
    }

    // keep rooc's (and our own) panic messages out of the log: panics are caught and reported
    std::panic::set_hook(Box::new(|_| {}));

    // stale replay files of earlier runs would be mistaken for current findings
    let _ = std::fs::remove_dir_all(verif_root().join("replays").join(id));
    let total = prop.budget(args.tier);
    let fixed = prop.fixed_cases(args.tier);
    // replays of fixed defects and golden cases are part of the fixed set
    let mut golden: Vec<P::Case> = vec![];
    let golden_dir = verif_root().join("corpus").join("replay").join(id);
    if let Ok(rd) = std::fs::read_dir(&golden_dir) {
        let mut files: Vec<_> = rd.filter_map(|e| e.ok()).map(|e| e.path()).collect();
        files.sort();
        for f in files {
            if f.extension().and_then(|e| e.to_str()) != Some("json") {
                continue;
            }
            match std::fs::read_to_string(&f)
                .ok()
                .and_then(|t| serde_json::from_str::<ReplayFile<P::Case>>(&t).ok())
            {
                Some(r) => golden.push(r.case),
                None => {
                    eprintln!("harness error: unreadable golden replay {}", f.display());
                    return 2;
                }
            }
        }
    }
    let golden_n = golden.len();
    let mut all_fixed = golden;
    all_fixed.extend(fixed);
    let all_fixed = Arc::new(all_fixed);

    let slots: Vec<Slot> = (0..WORKERS)
        .map(|_| Slot {
            started: Mutex::new(None),
        })
        .collect();
    let done = AtomicBool::new(false);
    let progress = AtomicU64::new(0);
    let hang: Mutex<Option<(String, u64)>> = Mutex::new(None);
    let timeout = prop.case_timeout_s();

    let mut results: Vec<WorkerResult> = vec![];
    std::thread::scope(|scope| {
        // watchdog
        let wd = scope.spawn(|| {
            while !done.load(Ordering::Relaxed) {
                std::thread::sleep(Duration::from_millis(500));
                for s in &slots {
                    let g = s.started.lock().unwrap();
                    if let Some((at, case)) = &*g {
                        if at.elapsed().as_secs() >= timeout {
                            let mut h = hang.lock().unwrap();
                            if h.is_none() {
                                *h = Some((case.clone(), at.elapsed().as_secs()));
                            }
                        }
                    }
                }
                if hang.lock().unwrap().is_some() {
                    // a worker is stuck inside rooc: we cannot unwind it, report and leave
                    let (case, secs) = hang.lock().unwrap().clone().unwrap();
                    let dir = verif_root().join("replays").join(id);
                    let _ = std::fs::create_dir_all(&dir);
                    let path = dir.join(format!("hang-{:016x}.json", fnv(&case)));
                    let _ = std::fs::write(
                        &path,
                        format!(
                            "{{\"property\":\"{id}\",\"signature\":\"hang\",\"detail\":\"case still running after {secs}s\",\"case\":{case}}}"
                        ),
                    );
                    if prop.hang_is_violation() {
                        println!("VIOLATION property={id} replay={}", path.display());
                        std::process::exit(1);
                    } else {
                        eprintln!(
                            "harness watchdog: a case of {id} ran for more than {timeout}s (saved to {}); inconclusive",
                            path.display()
                        );
                        std::process::exit(2);
                    }
                }
            }
        });

        let handles: Vec<_> = (0..WORKERS)
            .map(|k| {
                let all_fixed = all_fixed.clone();
                let slots = &slots;
                let progress = &progress;
                let known = &known;
                scope.spawn(move || {
                    let mut res = WorkerResult::default();
                    let run_one = |res: &mut WorkerResult,
                                   case: &P::Case,
                                   tree: Option<&mut Box<dyn ValueTree<Value = P::Case>>>| {
                        let json = serde_json::to_string(case).unwrap_or_default();
                        *slots[k].started.lock().unwrap() = Some((Instant::now(), json));
                        let outcome = guarded_check(prop, case);
                        // one case can fail in several ways; the value tree can be shrunk for one of
                        // them only (shrinking moves it), the others keep the unshrunk case
                        let mut tree = tree;
                        for (signature, detail0) in record(prop, res, case, outcome) {
                            if let Ok(path) = std::env::var("VERIF_DUMP_FAILS") {
                                use std::io::Write;
                                if let Ok(mut f) = std::fs::OpenOptions::new().create(true).append(true).open(path) {
                                    let _ = writeln!(f, "{}\t{}\t{}", signature, detail0.replace('\n', " "), serde_json::to_string(case).unwrap_or_default());
                                }
                            }
                            let seen = res.failures.contains_key(&signature);
                            if seen {
                                res.failures.get_mut(&signature).unwrap().2 += 1;
                            } else {
                                // shrink only the first case of each signature
                                let (shrunk, detail, steps) = match tree.take() {
                                    Some(tree) if matches_known(known, &signature).is_none() => {
                                        let touch = |c: &P::Case| {
                                            let json = serde_json::to_string(c).unwrap_or_default();
                                            *slots[k].started.lock().unwrap() = Some((Instant::now(), json));
                                        };
                                        let (c, d, s) = shrink(prop, tree, &signature, &touch);
                                        (c, if d.is_empty() { detail0 } else { d }, s)
                                    }
                                    _ => (case.clone(), detail0, 0),
                                };
                                res.failures.insert(
                                    signature,
                                    (
                                        serde_json::to_string(&shrunk).unwrap_or_default(),
                                        detail,
                                        1,
                                        steps,
                                    ),
                                );
                            }
                        }
                        *slots[k].started.lock().unwrap() = None;
                        progress.fetch_add(1, Ordering::Relaxed);
                    };

                    // fixed cases, striped over workers
                    for (i, case) in all_fixed.iter().enumerate() {
                        if i % WORKERS == k {
                            run_one(&mut res, case, None);
                        }
                    }
                    // generated cases
                    let mut seed_bytes = [0u8; 32];
                    seed_bytes[..8].copy_from_slice(&args.seed.to_le_bytes());
                    seed_bytes[8..16].copy_from_slice(&(k as u64).to_le_bytes());
                    seed_bytes[16..24].copy_from_slice(&fnv(id).to_le_bytes());
                    let rng = TestRng::from_seed(RngAlgorithm::ChaCha, &seed_bytes);
                    let config = Config {
                        failure_persistence: None,
                        ..Config::default()
                    };
                    let mut runner = TestRunner::new_with_rng(config, rng);
                    let strategy = prop.strategy(args.tier);
                    let share = total / WORKERS + usize::from(k < total % WORKERS);
                    for _ in 0..share {
                        let mut tree: Box<dyn ValueTree<Value = P::Case>> =
                            match strategy.new_tree(&mut runner) {
                                Ok(t) => Box::new(t),
                                Err(_) => {
                                    *res.skips.entry("generator rejected".into()).or_default() += 1;
                                    continue;
                                }
                            };
                        let case = tree.current();
                        run_one(&mut res, &case, Some(&mut tree));
                    }
                    res
                })
            })
            .collect();
        for h in handles {
            results.push(h.join().expect("worker thread"));
        }
        done.store(true, Ordering::Relaxed);
        let _ = wd.join();
    });

    // merge in worker order
    let mut merged = WorkerResult::default();
    for r in results {
        merged.evaluations += r.evaluations;
        merged.passes += r.passes;
        merged.nontrivial_hashes.extend(r.nontrivial_hashes);
        for (k, v) in r.labels {
            *merged.labels.entry(k).or_default() += v;
        }
        for (k, v) in r.skips {
            *merged.skips.entry(k).or_default() += v;
        }
        for s in r.samples {
            if merged.samples.len() < 6 {
                merged.samples.push(s);
            }
        }
        for (sig, (case, detail, n, steps)) in r.failures {
            merged
                .failures
                .entry(sig)
                .and_modify(|e| e.2 += n)
                .or_insert((case, detail, n, steps));
        }
    }

    // classify failures
    let mut known_hits: BTreeMap<String, (u64, String)> = BTreeMap::new();
    let mut unknown: Vec<(String, String, String, u64)> = vec![];
    for (sig, (case, detail, n, _)) in &merged.failures {
        if let Some(k) = matches_known(&known, sig) {
            let what = known
                .iter()
                .find(|o| o.id == k.id)
                .map(|o| o.what.clone())
                .unwrap_or_default();
            let e = known_hits.entry(k.id.clone()).or_insert((0, what));
            e.0 += n;
        } else {
            unknown.push((sig.clone(), case.clone(), detail.clone(), *n));
        }
    }
    for (kid, (n, what)) in &known_hits {
        println!("KNOWN-FINDING: property={id} {kid}: {what} (hit {n} times)");
    }
    let mut exit = 0;
    let dir = verif_root().join("replays").join(id);
    for (sig, case, detail, n) in &unknown {
        let _ = std::fs::create_dir_all(&dir);
        let path = dir.join(format!("{:016x}.json", fnv(sig)));
        let body = format!(
            "{{\"property\":{},\"signature\":{},\"detail\":{},\"occurrences\":{},\"seed\":{},\"case\":{}}}",
            serde_json::to_string(id).unwrap(),
            serde_json::to_string(sig).unwrap(),
            serde_json::to_string(detail).unwrap(),
            n,
            args.seed,
            case
        );
        let _ = std::fs::write(&path, body);
        println!("VIOLATION property={id} replay={}", path.display());
        println!("  signature: {sig}");
        let d: String = detail.chars().take(600).collect();
        println!("  detail: {d}");
        exit = 1;
    }

    // evidence
    let wall = t0.elapsed().as_secs_f64();
    let mut coverage = serde_json::Map::new();
    coverage.insert("evaluations".into(), merged.evaluations.into());
    coverage.insert(
        "distinct_nontrivial".into(),
        (merged.nontrivial_hashes.len() as u64).into(),
    );
    coverage.insert("rule".into(), prop.rule().into());
    let samples: Vec<serde_json::Value> = merged
        .samples
        .iter()
        .map(|s| serde_json::from_str(s).unwrap_or(serde_json::Value::String(s.clone())))
        .collect();
    coverage.insert("samples".into(), samples.into());
    coverage.insert("passes".into(), merged.passes.into());
    coverage.insert("fixed_cases".into(), (all_fixed.len() as u64).into());
    coverage.insert("golden_replays".into(), (golden_n as u64).into());
    coverage.insert("generated_cases".into(), (total as u64).into());
    coverage.insert(
        "labels".into(),
        serde_json::to_value(&merged.labels).unwrap(),
    );
    coverage.insert("skipped".into(), serde_json::to_value(&merged.skips).unwrap());
    let kh: BTreeMap<String, u64> = known_hits.iter().map(|(k, v)| (k.clone(), v.0)).collect();
    coverage.insert("known_finding_hits".into(), serde_json::to_value(&kh).unwrap());
    coverage.insert(
        "unknown_violation_signatures".into(),
        serde_json::to_value(unknown.iter().map(|u| u.0.clone()).collect::<Vec<_>>()).unwrap(),
    );
    if let Some(what) = prop.exhaustive_stratum(args.tier) {
        coverage.insert("exhaustive".into(), true.into());
        coverage.insert("exhaustive_stratum".into(), what.into());
    }
    for (k, v) in prop.extra_coverage() {
        coverage.insert(k, v);
    }
    let evidence = serde_json::json!({
        "property_id": id,
        "tier": args.tier.name(),
        "seed": args.seed,
        "level": "exploration",
        "coverage": coverage,
        "assumptions": prop.assumptions(),
        "wall_s": wall,
        "violations": unknown.len(),
    });
    let ev_dir = verif_root().join("evidence");
    let _ = std::fs::create_dir_all(&ev_dir);
    if let Err(e) = std::fs::write(
        ev_dir.join(format!("{id}.json")),
        serde_json::to_string_pretty(&evidence).unwrap(),
    ) {
        eprintln!("harness error: cannot write evidence: {e}");
        return 2;
    }
    println!(
        "{id} {}: {} cases, {} pass, {} distinct non-trivial, {} skipped, {} known-finding hits, {} unknown violation kinds, {:.1}s",
        args.tier.name(),
        merged.evaluations,
        merged.passes,
        merged.nontrivial_hashes.len(),
        merged.skips.values().sum::<u64>(),
        kh.values().sum::<u64>(),
        unknown.len(),
        wall
    );
    if merged.nontrivial_hashes.len() < 2 && exit == 0 {
        eprintln!("harness error: fewer than 2 non-trivial cases — the generator is broken");
        return 2;
    }
    exit
}

#[derive(serde::Deserialize)]
struct ReplayFile<C> {
    case: C,
}

fn replay<P: Prop>(prop: &P, path: &PathBuf, known: &[KnownFinding]) -> i32 {
    let id = prop.id();
    let text = match std::fs::read_to_string(path) {
        Ok(t) => t,
        Err(e) => {
            eprintln!("harness error: cannot read {}: {e}", path.display());
            return 2;
        }
    };
    let file: ReplayFile<P::Case> = match serde_json::from_str(&text) {
        Ok(f) => f,
        Err(e) => {
            eprintln!("harness error: cannot parse {}: {e}", path.display());
            return 2;
        }
    };
    if std::env::var_os("VERIF_PANIC_TRACE").is_none() { std::panic::set_hook(Box::new(|_| {})); }
    match guarded_check(prop, &file.case) {
        Outcome::Pass { nontrivial, labels } => {
            println!("replay {id}: PASS (nontrivial={nontrivial}, labels={labels:?})");
            0
        }
        Outcome::Skip(r) => {
            println!("replay {id}: SKIP ({r})");
            0
        }
        o => {
            for (signature, detail) in o.failures() {
                if let Some(k) = matches_known(known, &signature) {
                    println!("note: matches known finding {} ({})", k.id, k.what);
                }
                println!("VIOLATION property={id} replay={}", path.display());
                println!("  signature: {signature}");
                println!("  detail: {detail}");
            }
            1
        }
    }
}
