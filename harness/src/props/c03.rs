//! C03 — end-to-end answers are right: optimum, infeasible, or error (DESIGN.md §5.3).

use crate::gen::model::{env_text, model_case_biased, test_points, ModelCase, ModelParams, SObj};
use crate::gen::text::{dom_text, print, Style};
use crate::oracle::rat::{big, Big};
use crate::oracle::sem::{Env, SExp};
use crate::props::solvers::{hang_seconds, LEAKED};
use crate::runner::{Outcome, Prop, Tier};
use num_traits::{Signed, ToPrimitive, Zero};
use proptest::prelude::*;
use rooc::{auto_solver, LpSolution, MILPValue, RoocSolver, RoocSolverError, SolverError};
use serde::{Deserialize, Serialize};

pub struct C03;

/// Does the compiled model declare a continuous variable with a range that is not a single point
/// and narrower than 1e-9 (relative to the bound)? Decides the class of a recorded finding.
pub fn narrow_published_range(l: &rooc::LinearModel) -> bool {
    crate::gen::lin::LinCase::from_rooc(l).vars.iter().any(|(_, d)| {
        if d.is_discrete() {
            return false;
        }
        let (lo, hi) = d.bounds_f64();
        lo.is_finite() && hi.is_finite() && hi > lo && hi - lo < 1e-9 * hi.abs().max(1.0)
    })
}

#[derive(Clone, Debug, Serialize, Deserialize)]
pub struct Case {
    pub model: ModelCase,
    pub style: u64,
    /// constants written through the `where` block
    pub consts: Vec<f64>,
}

impl Case {
    pub fn text(&self) -> String {
        let m = &self.model;
        let mut st = Style::from_bits(self.style);
        st.consts = self.consts.iter().enumerate().map(|(i, c)| (format!("k{i}"), *c)).collect();
        let obj = match &m.obj {
            SObj::Min(e) => format!("min {}", print(e, &mut st)),
            SObj::Max(e) => format!("max {}", print(e, &mut st)),
            SObj::Satisfy => "solve".to_string(),
        };
        let mut lines = vec![obj, "s.t.".to_string()];
        for c in &m.cons {
            let name = if c.name.is_empty() { String::new() } else { format!("{}: ", c.name) };
            let body = if c.bare {
                match &c.lhs {
                    SExp::Num(v) if *v == 1.0 => "true".to_string(),
                    SExp::Num(v) if *v == 0.0 => "false".to_string(),
                    e => print(e, &mut st),
                }
            } else {
                format!("{} {} {}", print(&c.lhs, &mut st), c.rel.text(), print(&c.rhs, &mut st))
            };
            lines.push(format!("    {name}{body}"));
        }
        if !self.consts.is_empty() {
            lines.push("where".into());
            for (i, c) in self.consts.iter().enumerate() {
                let v = if *c < 0.0 { format!("-{}", -c) } else { format!("{c}") };
                lines.push(format!("    let k{i} = {v}"));
            }
        }
        lines.push("define".into());
        for (n, d) in &m.vars {
            lines.push(format!("    {} as {}", n, dom_text(d)));
        }
        lines.join("\n")
    }
}

const PARAMS: ModelParams = ModelParams { max_vars: 4, max_cons: 4, depth: 3, inexact: false, unbounded_decl: false, objective: true };

pub enum Answer {
    Ok(LpSolution<MILPValue>),
    Err(String, String), // kind, message
    Hang,
}

/// the one-shot entry point, on a helper thread (a solver that never returns must not freeze us)
pub fn solve_text(src: &str) -> Answer {
    let (tx, rx) = std::sync::mpsc::channel();
    let text = src.to_string();
    std::thread::Builder::new()
        .stack_size(8 << 20)
        .spawn(move || {
            let r = std::panic::catch_unwind(|| match RoocSolver::try_new(text.clone()) {
                Err(e) => Answer::Err("Parse".into(), e.to_string_from_source(&text)),
                Ok(s) => match s.solve_using(auto_solver) {
                    Ok(sol) => Answer::Ok(sol),
                    Err(RoocSolverError::Transform(e)) => Answer::Err("Transform".into(), e.traced_error()),
                    Err(RoocSolverError::Linearization(e)) => Answer::Err(format!("Linearization:{}", crate::props::lincheck::err_kind(&e)), e.to_string()),
                    Err(RoocSolverError::Solver(SolverError::Infeasible)) => Answer::Err("Infeasible".into(), String::new()),
                    Err(RoocSolverError::Solver(SolverError::Unbounded)) => Answer::Err("Unbounded".into(), String::new()),
                    Err(RoocSolverError::Solver(e)) => Answer::Err("SolverOther".into(), e.to_string()),
                },
            });
            let _ = tx.send(r.unwrap_or_else(|p| {
                let msg = p.downcast_ref::<String>().cloned().or_else(|| p.downcast_ref::<&str>().map(|s| s.to_string())).unwrap_or_default();
                Answer::Err("Panic".into(), msg)
            }));
        })
        .expect("spawn");
    match rx.recv_timeout(std::time::Duration::from_secs(hang_seconds())) {
        Ok(a) => a,
        Err(_) => {
            LEAKED.fetch_add(1, std::sync::atomic::Ordering::SeqCst);
            Answer::Hang
        }
    }
}

fn value_of(v: MILPValue) -> Big {
    match v {
        MILPValue::Bool(b) => big(if b { 1.0 } else { 0.0 }),
        MILPValue::Int(i) => big(i as f64),
        MILPValue::Real(r) => big(r),
    }
}

impl Prop for C03 {
    type Case = Case;
    fn id(&self) -> &'static str {
        "C03"
    }
    fn strategy(&self, _tier: Tier) -> BoxedStrategy<Case> {
        let consts = proptest::collection::vec(prop_oneof![Just(2.0), Just(3.0), Just(-1.0), Just(0.5), Just(1.0), Just(-2.0)], 0..=2).prop_map(|mut v| {
            v.dedup();
            v
        });
        (model_case_biased(PARAMS), any::<u64>(), consts)
            .prop_map(|(mut model, style, consts)| {
                model.structural_logic = true;
                model.mark_all_used = false;
                Case { model, style, consts }
            })
            .boxed()
    }
    fn budget(&self, tier: Tier) -> usize {
        match tier {
            Tier::Quick => 12_000,
            Tier::Thorough => 400_000,
        }
    }
    fn canon(&self, c: &Case) -> String {
        serde_json::to_string(&c.text()).unwrap()
    }
    fn rule(&self) -> String {
        "whole source texts printed from generated typed models (arithmetic, logic, abs/min/max, all/any blocks, comparisons, bare assertions, named constraints, where-constants, Boolean / IntegerRange / bounded Real declarations, min / max / solve) with random spelling, solved through RoocSolver::try_new(src)?.solve_using(auto_solver). Reference: the harness's exact interpreter on the generating AST. All-discrete models: exhaustive enumeration of the declared domains decides feasibility and the optimum in both directions. Models with reals: the returned point must be source-feasible within 1e-6 and at least as good (1e-6) as every source-feasible point of the test set (C01's construction); an infeasible verdict must not contradict a feasible test point. Any compilation error, unbounded verdict or other solver error on these well-typed bounded linear texts is a violation. Non-trivial = >=2 constraints, a non-affine construct, and the enumeration / test set holds feasible and infeasible assignments. Distinct = distinct source text.".into()
    }
    fn assumptions(&self) -> Vec<String> {
        vec!["objective and constraint checks at the returned point use a 1e-6 absolute-or-relative tolerance (solver arithmetic is f64)".into()]
    }
    fn check(&self, case: &Case) -> Outcome {
        let m = &case.model;
        let src = case.text();
        let pts = test_points(m, 80);
        let discrete = m.vars.iter().all(|v| v.1.is_discrete());
        let maximize = matches!(m.obj, SObj::Max(_));
        let objective = |env: &Env| -> Option<Big> {
            match &m.obj {
                SObj::Min(e) | SObj::Max(e) => e.eval(env),
                SObj::Satisfy => None,
            }
        };
        let mut best: Option<(Big, Env)> = None;
        let mut nfeas = 0usize;
        let mut ninf = 0usize;
        for env in &pts {
            match m.src_feasible(env) {
                Some(true) => {
                    nfeas += 1;
                    if let Some(v) = objective(env) {
                        let better = match &best {
                            None => true,
                            Some((b, _)) => if maximize { v > *b } else { v < *b },
                        };
                        if better {
                            best = Some((v, env.clone()));
                        }
                    }
                }
                Some(false) => ninf += 1,
                None => {}
            }
        }
        let exhaustive = discrete && pts.len() == m.vars.iter().map(|v| {
            let (lo, hi) = v.1.bounds_f64();
            (hi - lo) as usize + 1
        }).product::<usize>();
        let ctx = |extra: String| format!("{extra}\nsource:\n{src}");
        let nontrivial = m.cons.len() >= 2 && m.has_nonaffine() && nfeas > 0 && ninf > 0;
        let mut labels = vec![if discrete { "discrete".to_string() } else { "mixed".to_string() }];
        match solve_text(&src) {
            Answer::Hang => Outcome::fail("solve-did-not-return", ctx(format!("no answer within {}s", hang_seconds()))),
            Answer::Err(kind, msg) => {
                labels.push(format!("answer:{kind}"));
                match kind.as_str() {
                    "Infeasible" => {
                        if nfeas > 0 {
                            let env = pts.iter().find(|e| m.src_feasible(e) == Some(true)).unwrap();
                            // recorded finding: the compile step published a range of a continuous
                            // variable that is not a point and narrower than 1e-9 (the propagation
                            // converges to a point and stops at its step limit), on which the MILP
                            // dependency answers Infeasible
                            let class = match rooc::RoocParser::new(src.clone()).parse_and_transform(vec![], &indexmap::IndexMap::new()).ok().and_then(|model| rooc::Linearizer::linearize(model).ok()) {
                                Some(l) if narrow_published_range(&l) => ":published-range-narrower-than-1e-9",
                                _ => "",
                            };
                            Outcome::fail(format!("infeasible-verdict-but-satisfying-assignment-exists{class}"), ctx(format!("{{{}}} satisfies the text", env_text(env))))
                        } else {
                            Outcome::Pass { nontrivial: nontrivial || (m.cons.len() >= 2 && m.has_nonaffine()), labels }
                        }
                    }
                    k => Outcome::fail(
                        format!("error-on-well-formed-bounded-text:{}", k.split(':').next().unwrap_or(k)),
                        ctx(format!("{kind}: {msg}")),
                    ),
                }
            }
            Answer::Ok(sol) => {
                labels.push("answer:Ok".into());
                if exhaustive && nfeas == 0 {
                    return Outcome::fail("solution-returned-but-no-assignment-satisfies-the-text", ctx(format!("returned {sol}")));
                }
                // the returned point (unused variables take any value of their domain)
                let mut env = Env::new();
                for (name, dom) in &m.vars {
                    match sol.value_of(name) {
                        Some(v) => {
                            env.insert(name.clone(), value_of(v));
                        }
                        None => {
                            let (lo, _) = dom.bounds();
                            env.insert(name.clone(), lo.unwrap_or_else(|| big(0.0)));
                        }
                    }
                }
                let viol = m.src_violation(&env);
                match &viol {
                    Some(v) if *v <= big(1e-6) => {}
                    _ => {
                        return Outcome::fail(
                            "returned-point-violates-the-text",
                            ctx(format!("returned {{{}}}, violation {:?}", env_text(&env), viol.map(|v| v.to_f64()))),
                        )
                    }
                }
                if let Some(want) = objective(&env) {
                    let got = big(sol.value());
                    let tol = big(1e-6) * (want.abs() + big(1.0));
                    if (&got - &want).abs() > tol {
                        return Outcome::fail(
                            "reported-objective-differs-from-objective-at-returned-point",
                            ctx(format!("value() = {}, objective at {{{}}} = {}", sol.value(), env_text(&env), want)),
                        );
                    }
                    if let Some((b, benv)) = &best {
                        let strictly_better = if maximize { b > &(&want + &tol) } else { b < &(&want - &tol) };
                        if strictly_better {
                            return Outcome::fail(
                                "better-satisfying-assignment-exists",
                                ctx(format!("returned objective {} at {{{}}}, but {{{}}} satisfies the text with objective {}", want, env_text(&env), env_text(benv), b)),
                            );
                        }
                    }
                }
                let _ = Zero::is_zero(&big(0.0));
                Outcome::Pass { nontrivial, labels }
            }
        }
    }
}
