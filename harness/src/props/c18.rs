//! C18 — the compiler is total: it never panics or hangs (DESIGN.md §5.18).
//!
//! Every input is processed in a worker *process* (this binary in `c18-worker` mode) with an
//! address-space limit, so an abort, a stack overflow or an allocation blow-up is an observable
//! answer and not the end of the check; a wall watchdog turns a hang into one too.

use crate::gen::data::{data_prog, DataProg};
use crate::gen::model::{model_case_biased, ModelParams};
use crate::gen::mutate::{apply_ext, Mutation};
use crate::props::c03::Case as TextCase;
use crate::props::stages::run_stages;
use crate::runner::{Outcome, Prop, Tier};
use proptest::prelude::*;
use serde::{Deserialize, Serialize};
use std::cell::RefCell;
use std::io::{BufRead, BufReader, Write};
use std::process::{Child, ChildStdin, Command, Stdio};
use std::sync::mpsc::{channel, Receiver};
use std::time::Duration;

pub struct C18;

#[derive(Clone, Debug, Serialize, Deserialize)]
pub enum Base {
    Data(DataProg),
    Model(TextCase),
    Literal(String),
    /// raw bytes, read as lossy UTF-8
    Noise(Vec<u8>),
}

#[derive(Clone, Debug, Serialize, Deserialize)]
pub struct Case {
    pub base: Base,
    pub muts: Vec<Mutation>,
}

/// numeric extremes, deep nesting, huge ranges, stray syntax
pub const REPLACEMENTS: [&str; 66] = [
    "9223372036854775807", "9223372036854775808", "18446744073709551615", "18446744073709551616", "340282366920938463463374607431768211456",
    "-9223372036854775807 - 1", "0.000000000000000000000000000001", "179769313486231570000000000000000000000000000000000000000000000000000000000000000000000000000000000000000000000000000000000000000000000000000000000000000000000000000000000000000000000000000000000000000000000000000000000000000000000000000000000000000000000000000000000000000000000000000000000000000000000000.0",
    "99999999999999999999999999999999999999999999999999999999999999999999999999999999999999999999999999999999999999999999999999999999999999999999999999999999999999999999999999999999999999999999999999999999999999999999999999999999999999999999999999999999999999999999999999999999999999999999999999999999999999999999999999999999.0",
    "2147483647", "2147483648", "-2147483649", "4294967296", "0", "-0", "1", "0.5",
    "Infinity", "MinusInfinity", "PI", "Infinity - Infinity", "1 / 0", "0 / 0",
    "0..100000", "0..=3", "3..0", "-5..5",
    "((((((((((((((((((((((((((((((((((((((((((((((((((((((((((((((((1))))))))))))))))))))))))))))))))))))))))))))))))))))))))))))))))",
    "x_{x_{x_{x_{x_{x_{x_{x_{1}}}}}}}}", "a[0][0][0][0][0][0][0][0]", "[[[[[[[[1]]]]]]]]",
    "\"\"", "\"\\u0041\\n\"", "true", "[]", "Graph { }", "Graph { A -> [A] }",
    "len(", ")", "{", "}", "for", "in", "\n",
    "((((((((((((((((((((((((((((((((((((((((1", "abs { abs { abs { abs { abs { abs { abs { abs { abs { abs { abs { abs { abs { abs { abs { abs { abs { abs { abs { abs { x",
    "len(len(len(len(len(len(len(len(len(len(len(len(len(len(len(len(len(len(len(len(len(len(len(len(a", "a[a[a[a[a[a[a[a[a[a[a[a[a[a[a[a[a[a[a[a[a[a[a[a[a[a[a[a[a[a[0",
    "x_{x_{x_{x_{x_{x_{x_{x_{x_{x_{x_{x_{x_{x_{x_{x_{x_{x_{x_{x_{x_{x_{x_{x_{x_{x_{1", "[[[[[[[[[[[[[[[[[[[[[[[[[[[[[[[[[[[[[[[[1",
    "1))))))))))))))))))))))))))))))))))))))))", "2(2(2(2(2(2(2(2(2(2(2(2(2(2(2(2(2(2(2(2(2(2(2(2(2(2(2(2(2(2(x",
    // integer limits meeting every other kind of operand (each pair of kinds has its own arithmetic arm)
    "9223372036854775807 + true", "9223372036854775807 - false - 1 + true + true", "(-9223372036854775807 - 1) - true", "(-9223372036854775807 - 1) * true - true",
    "true + 9223372036854775807", "9223372036854775807 + 1", "9223372036854775807 * 2", "(-9223372036854775807 - 1) / -1", "(-9223372036854775807 - 1) * -1",
    "18446744073709551615 + 1", "18446744073709551615 + true", "0 - 18446744073709551615 - 18446744073709551615", "9223372036854775807 + 0.5", "true * 18446744073709551615 * 2",
];

/// numbers that replace a number: the text stays a program
pub const NUMBERS: [&str; 30] = [
    "9223372036854775807", "9223372036854775808", "18446744073709551615", "18446744073709551616", "340282366920938463463374607431768211456",
    "2147483647", "2147483648", "4294967295", "4294967296", "9007199254740993", "1000000", "100000", "65536", "1024", "0", "1", "2", "0.5", "0.1",
    "0.000000000000000000000000000001", "0.0000000001", "1000000000000000000000.5", "123456789012345678901234567890.0",
    "179769313486231570000000000000000000000000000000000000000000000000000000000000000000000000000000000000000000000000000000000000000000000000000000000000000000000000000000000000000000000000000000000000000000000000000000000000000000000000000000000000000000000000000000000000000000000000000000000000000000000000000000.0",
    "99999999999999999999999999999999999999999999999999999999999999999999999999999999999999999999999999999999999999999999999999999999999999999999999999999999999999999999999999999999999999999999999999999999999999999999999999999999999999999999999999999999999999999999999999999999999999999999999999999999999999999999999999999999.0",
    "00000000000000000000000000000000000000000000000000000000000000000007", "3.0000000000000000000000000000000000000000000000000000001", "16777217", "4503599627370497", "10",
];

const PARAMS: ModelParams = ModelParams { max_vars: 3, max_cons: 3, depth: 3, inexact: true, unbounded_decl: true, objective: true };

impl Case {
    pub fn text(&self) -> String {
        let base = match &self.base {
            Base::Data(d) => d.texts().0,
            Base::Model(m) => m.text(),
            Base::Literal(s) => s.clone(),
            Base::Noise(b) => String::from_utf8_lossy(b).to_string(),
        };
        let mut t = apply_ext(&base, &self.muts, &REPLACEMENTS, &NUMBERS);
        // the property quantifies over inputs up to 4 KiB
        if t.len() > 4096 {
            let mut cut = 4096;
            while !t.is_char_boundary(cut) {
                cut -= 1;
            }
            t.truncate(cut);
        }
        t
    }
}

// ---------------------------------------------------------------------------------------------
// worker process

/// elements of ranges materialised while the current input is processed
static RANGE_ELEMENTS: std::sync::atomic::AtomicU64 = std::sync::atomic::AtomicU64::new(0);
static RANGE_LEVEL: std::sync::atomic::AtomicUsize = std::sync::atomic::AtomicUsize::new(0);

/// When the ranges written out for one input pass one of these totals the worker says so *before*
/// serving the request, so that the parent can tell "the compiler is busy expanding a range of
/// user size" from any other silence or death. What may be attributed to which level is decided in
/// `check`.
pub const RANGE_LEVELS: [u64; 3] = [4_000, 50_000, 2_000_000];

fn observe_range(from: i64, to: i64, inclusive: bool) {
    use std::sync::atomic::Ordering::SeqCst;
    let len = if to >= from { (to as i128 - from as i128 + inclusive as i128) as u128 } else { 0 };
    let len = len.min(u64::MAX as u128 / 4) as u64;
    let total = RANGE_ELEMENTS.fetch_add(len, SeqCst).saturating_add(len);
    let level = RANGE_LEVELS.iter().filter(|l| total > **l).count();
    if level > RANGE_LEVEL.fetch_max(level, SeqCst) {
        let stdout = std::io::stdout();
        let mut out = stdout.lock();
        let _ = writeln!(out, "{}", serde_json::json!({"notice": "range", "level": level, "from": from, "to": to, "elements": total}));
        let _ = out.flush();
    }
}

fn announce_stage(name: &'static str) {
    let stdout = std::io::stdout();
    let mut out = stdout.lock();
    let _ = writeln!(out, "{}", serde_json::json!({"notice": "stage", "name": name}));
    let _ = out.flush();
}

pub fn worker_main() {
    // silence panic messages: they are reported through the protocol
    std::panic::set_hook(Box::new(|_| {}));
    rooc::verif_hooks::set_range_observer(Some(observe_range));
    crate::props::stages::set_stage_announcer(Some(announce_stage));
    let stdin = std::io::stdin();
    let stdout = std::io::stdout();
    for line in stdin.lock().lines() {
        let Ok(line) = line else { break };
        let src: String = match serde_json::from_str(&line) {
            Ok(s) => s,
            Err(_) => continue,
        };
        RANGE_ELEMENTS.store(0, std::sync::atomic::Ordering::SeqCst);
        RANGE_LEVEL.store(0, std::sync::atomic::Ordering::SeqCst);
        let r = run_stages(&src);
        let answer = serde_json::json!({
            "reached": r.reached,
            "panicked_in": r.panicked_in,
            "panic": r.panic_message,
        });
        let mut out = stdout.lock();
        let _ = writeln!(out, "{answer}");
        let _ = out.flush();
    }
}

struct Worker {
    served: usize,
    child: Child,
    stdin: ChildStdin,
    rx: Receiver<String>,
    stderr: std::sync::Arc<std::sync::Mutex<String>>,
    stderr_done: Receiver<()>,
}

impl Worker {
    fn spawn() -> Worker {
        // /proc/self/exe stays valid when the binary on disk is replaced while a run is in progress
        let exe = std::path::PathBuf::from(format!("/proc/{}/exe", std::process::id()));
        // 4 GiB of address space: a request for billions of elements fails instead of swapping
        let mut child = Command::new("sh")
            .arg("-c")
            .arg("ulimit -v 4194304; exec \"$0\" c18-worker")
            .arg(exe)
            .stdin(Stdio::piped())
            .stdout(Stdio::piped())
            .stderr(Stdio::piped())
            .spawn()
            .expect("spawn worker");
        let stdin = child.stdin.take().unwrap();
        let stdout = child.stdout.take().unwrap();
        let err = child.stderr.take().unwrap();
        let (tx, rx) = channel();
        std::thread::spawn(move || {
            for line in BufReader::new(stdout).lines() {
                match line {
                    Ok(l) => {
                        if tx.send(l).is_err() {
                            break;
                        }
                    }
                    Err(_) => break,
                }
            }
        });
        let stderr = std::sync::Arc::new(std::sync::Mutex::new(String::new()));
        let (done_tx, stderr_done) = channel();
        let sink = stderr.clone();
        std::thread::spawn(move || {
            for line in BufReader::new(err).lines() {
                let Ok(l) = line else { break };
                let mut s = sink.lock().unwrap();
                if s.len() < 4000 {
                    s.push_str(&l);
                    s.push('\n');
                }
            }
            let _ = done_tx.send(());
        });
        Worker { served: 0, child, stdin, rx, stderr, stderr_done }
    }

    /// why the runtime says the process ended (read after the process is gone)
    fn last_words(&mut self) -> String {
        let status = self.child.wait().map(|s| s.to_string()).unwrap_or_default();
        let _ = self.stderr_done.recv_timeout(Duration::from_secs(2));
        let words = self.stderr.lock().unwrap().clone();
        let cause = if words.contains("overflowed its stack") {
            "stack-overflow"
        } else if words.contains("memory allocation of") {
            "allocation-failure"
        } else {
            "abort"
        };
        format!("{cause}|{status}|{}", words.trim())
    }
}

thread_local! {
    static WORKER: RefCell<Option<Worker>> = const { RefCell::new(None) };
}

enum End {
    Report { reached: Vec<String>, panicked_in: Option<String>, panic: Option<String> },
    Died(String),
    Hang,
}

struct Answer {
    end: End,
    /// highest RANGE_LEVELS threshold the worker announced for this input (0 = none), and the range
    range_level: usize,
    range_notice: Option<String>,
    /// the solver stage the worker had announced before it answered, died or went silent
    solver_stage: Option<String>,
}

const WATCHDOG_S: u64 = 20;
/// inputs that went unanswered in this run; after 16 of them the watchdog drops to 4 s, so that a
/// tree on which most inputs hang still finishes the run (and reports) in minutes
static UNANSWERED: std::sync::atomic::AtomicUsize = std::sync::atomic::AtomicUsize::new(0);
/// how long a worker that announced more than two million range elements is given to finish
const AFTER_NOTICE_S: u64 = 4;

fn ask(src: &str) -> Answer {
    WORKER.with(|w| {
        let mut w = w.borrow_mut();
        // a worker is replaced after 2000 inputs, so that memory that the compiler or a solver keeps
        // between inputs cannot add up to the address-space limit over a long run
        if w.as_ref().is_some_and(|x| x.served >= 2000) {
            if let Some(mut old) = w.take() {
                let _ = old.child.kill();
                let _ = old.child.wait();
            }
        }
        if w.is_none() {
            *w = Some(Worker::spawn());
        }
        let worker = w.as_mut().unwrap();
        worker.served += 1;
        let line = serde_json::to_string(src).unwrap();
        if writeln!(worker.stdin, "{line}").and_then(|_| worker.stdin.flush()).is_err() {
            let status = worker.last_words();
            *w = None;
            return Answer { end: End::Died(status), range_level: 0, range_notice: None, solver_stage: None };
        }
        let mut range_notice = None;
        let mut range_level = 0usize;
        let mut solver_stage: Option<String> = None;
        let watchdog = if UNANSWERED.load(std::sync::atomic::Ordering::SeqCst) > 16 { AFTER_NOTICE_S } else { WATCHDOG_S };
        let mut deadline = std::time::Instant::now() + Duration::from_secs(watchdog);
        loop {
            let left = deadline.saturating_duration_since(std::time::Instant::now());
            match worker.rx.recv_timeout(left) {
                Ok(l) => {
                    let v: serde_json::Value = serde_json::from_str(&l).unwrap_or(serde_json::Value::Null);
                    if v["notice"] == "stage" {
                        solver_stage = v["name"].as_str().map(|s| s.to_string());
                        continue;
                    }
                    if v["notice"].is_string() {
                        range_notice = Some(format!("{}..{} ({} elements so far)", v["from"], v["to"], v["elements"]));
                        range_level = range_level.max(v["level"].as_u64().unwrap_or(0) as usize);
                        if range_level >= 3 {
                            deadline = deadline.min(std::time::Instant::now() + Duration::from_secs(AFTER_NOTICE_S));
                        }
                        continue;
                    }
                    let end = End::Report {
                        reached: v["reached"].as_array().map(|a| a.iter().filter_map(|x| x.as_str().map(|s| s.to_string())).collect()).unwrap_or_default(),
                        panicked_in: v["panicked_in"].as_str().map(|s| s.to_string()),
                        panic: v["panic"].as_str().map(|s| s.to_string()),
                    };
                    return Answer { end, range_level, range_notice, solver_stage };
                }
                Err(std::sync::mpsc::RecvTimeoutError::Timeout) => {
                    UNANSWERED.fetch_add(1, std::sync::atomic::Ordering::SeqCst);
                    let _ = worker.child.kill();
                    let _ = worker.child.wait();
                    *w = None;
                    return Answer { end: End::Hang, range_level, range_notice, solver_stage };
                }
                Err(std::sync::mpsc::RecvTimeoutError::Disconnected) => {
                    let status = worker.last_words();
                    *w = None;
                    return Answer { end: End::Died(status), range_level, range_notice, solver_stage };
                }
            }
        }
    })
}

pub fn literals() -> Vec<String> {
    vec![
        "min 1\ns.t.\n    x >= a\nwhere\n    let a = -9223372036854775807 - 1\n    let b = -a\ndefine\n    x as Real".into(),
        "min x\ns.t.\n    x >= 1\ndefine\n    x as IntegerRange(0, 99999999999)".into(),
        "max sum(i in 0..n) { x_i }\ns.t.\n    x_i <= i for i in 0..n\nwhere\n    let n = 5\ndefine\n    x_i as NonNegativeReal for i in 0..n".into(),
        "min 0\ns.t.\n    truex <= 1\ndefine\n    truex as Boolean".into(),
        "solve\ns.t.\n    /* unterminated".into(),
        "min \u{1F600}\ns.t.\n    \u{00e9} <= 1".into(),
        "max sum(i in 0..min{2,3}) { x_i }\ns.t.\n    x_i <= i for i in 0..3\ndefine\n    x_i as NonNegativeReal for i in 0..3".into(),
        "max sum(i in Graph { }..n) { x_i }\ns.t.\n    x_i <= i for i in 0..n\nwhere\n    let n = 5\ndefine\n    x_i as NonNegativeReal for i in 0..n".into(),
        "min sum((u, v) in edges(G)) { x_u_v }\ns.t.\n    x_u_v >= 1 for (u, v) in edges(G)\nwhere\n    let G = Graph { A -> [B: 2, C], B -> [C], C }\ndefine\n    x_u_v as Boolean for (u, v) in edges(G)".into(),
        "min x_99999999999999999999\ns.t.\n    x_{9223372036854775807 + 1} >= a[18446744073709551615]\nwhere\n    let a = [1, 2]\ndefine\n    x_i as Real for i in 0..2".into(),
    ]
}

impl Prop for C18 {
    type Case = Case;
    fn id(&self) -> &'static str {
        "C18"
    }
    fn strategy(&self, _tier: Tier) -> BoxedStrategy<Case> {
        let base = prop_oneof![
            5 => data_prog().prop_map(Base::Data),
            3 => (model_case_biased(PARAMS), any::<u64>()).prop_map(|(model, style)| Base::Model(TextCase { model, style, consts: vec![] })),
            2 => (0usize..10).prop_map(|i| Base::Literal(literals()[i].clone())),
            2 => proptest::collection::vec(any::<u8>(), 0..200).prop_map(Base::Noise),
            1 => proptest::collection::vec(prop_oneof![Just(b'('), Just(b')'), Just(b'{'), Just(b'['), Just(b'-'), Just(b'x'), Just(b'1'), Just(b'\n'), Just(b' '), Just(b'_'), Just(b'"')], 0..400).prop_map(Base::Noise),
        ];
        let m = prop_oneof![
            5 => (any::<u16>(), any::<u16>()).prop_map(|(at, with)| Mutation::Replace { at, with }),
            8 => (any::<u16>(), any::<u16>()).prop_map(|(at, with)| Mutation::ReplaceNumber { at, with }),
            3 => (any::<u16>(), any::<u16>()).prop_map(|(at, with)| Mutation::ReplaceWord { at, with }),
            3 => (any::<u16>(), any::<u16>(), any::<u8>()).prop_map(|(at, with, form)| Mutation::ReplaceIndex { at, with, form }),
            2 => (any::<u16>(), any::<u16>()).prop_map(|(at, with)| Mutation::Insert { at, with }),
            2 => any::<u16>().prop_map(|at| Mutation::Delete { at }),
            2 => any::<u16>().prop_map(|at| Mutation::Duplicate { at }),
            2 => any::<u16>().prop_map(|at| Mutation::Swap { at }),
            1 => any::<u16>().prop_map(|at| Mutation::GrowTuple { at }),
            4 => (any::<u16>(), any::<u16>()).prop_map(|(at, with)| Mutation::ReplaceRange { at, with }),
        ];
        (base, prop_oneof![3 => proptest::collection::vec(m.clone(), 0..=1), 4 => proptest::collection::vec(m.clone(), 1..=2), 2 => proptest::collection::vec(m, 2..=5)]).prop_map(|(base, muts)| Case { base, muts }).boxed()
    }
    fn budget(&self, tier: Tier) -> usize {
        match tier {
            Tier::Quick => 30_000,
            Tier::Thorough => 1_500_000,
        }
    }
    fn fixed_cases(&self, _tier: Tier) -> Vec<Case> {
        let mut v: Vec<Case> = literals().into_iter().map(|s| Case { base: Base::Literal(s), muts: vec![] }).collect();
        // nesting depth 64 in every bracket kind: closed, one closer short, and not closed at all
        // (a parse that fails deep inside must fail as fast as one that succeeds)
        for (open, close) in [
            ("(", ")"), ("abs {", "}"), ("-(", ")"), ("not (", ")"), ("2(", ")"), ("len(", ")"), ("a[", "]"), ("x_{", "}"), ("min { 1, ", "}"),
            ("sum(i in 0..2) { ", "}"), ("sum(i in 0..", ") { 1 }"), ("sum(i in enumerate(", ")) { 1 }"), ("(x)(", ")"), ("f(1, ", ")"),
        ] {
            for closers in [64usize, 63, 32, 0] {
                let src = format!("min 0\ns.t.\n    {}x{} <= 1\ndefine\n    x as Boolean", open.repeat(64), close.repeat(closers));
                v.push(Case { base: Base::Literal(src), muts: vec![] });
            }
        }
        for closers in [64usize, 63, 0] {
            v.push(Case { base: Base::Literal(format!("min 0\ns.t.\n    x <= 1\nwhere\n    let a = {}1{}\ndefine\n    x as Boolean", "[".repeat(64), "]".repeat(closers))), muts: vec![] });
            v.push(Case { base: Base::Literal(format!("min 0\ns.t.\n    x <= 1\ndefine\n    x as Real{}1{}", "(".repeat(64), ")".repeat(closers))), muts: vec![] });
            v.push(Case { base: Base::Literal(format!("min 0\ns.t.\n    x <= 1 for i in {}1{}\ndefine\n    x as Boolean", "(".repeat(64), ")".repeat(closers))), muts: vec![] });
        }
        v
    }
    fn case_timeout_s(&self) -> u64 {
        WATCHDOG_S * 3
    }
    fn hang_is_violation(&self) -> bool {
        true
    }
    fn canon(&self, c: &Case) -> String {
        serde_json::to_string(&c.text()).unwrap()
    }
    fn rule(&self) -> String {
        "input strings up to 4 KiB from four sources: grammar-derived programs (C06's data-driven pieces, C03's typed models, literal programs), the same programs after up to five token mutations (replace a number by a numeric extreme and stay a program, replace a whole range a..b by a range at the limits of the integer types (empty, reversed, singleton, inclusive up to i64::MAX / u64::MAX, fractional bounds), replace a name by another name of the text, replace an index of an indexed name by such a number or an expression over it, replace an operand by a numeric extreme - i64/u64/i32 limits and their successors, 1e308-sized and 1e-30 literals, huge and reversed ranges, depth-64 parentheses, deep indexes and nested arrays, empty and self-looping graphs, stray brackets and keywords -, insert, delete, duplicate, swap), raw byte noise read as lossy UTF-8, and bracket/quote soup. Each input is run in a worker process (4 GiB address-space limit, 20 s watchdog) through parse, Display of the parsed program, format (+ re-parse), type_check (string and structured, with every rendering of the error), transform, parse_and_transform, Display of the model, linearize, Display and LP export of the linear model, into_standard_form, into_tableau + solve(10000) for continuous models, auto_solver when there are <= 12 integer variables. A panic in any stage, a worker that dies (abort, stack overflow, allocation failure) or that does not answer within the watchdog is a violation. Non-trivial = the input got past parse, or is a mutated valid program. Distinct = distinct input text.".into()
    }
    fn assumptions(&self) -> Vec<String> {
        vec![
            "termination is decided against a fixed budget (20 s for inputs whose typical cost is under a millisecond)".into(),
            "panics raised by overflow checks count: the harness builds rooc with overflow-checks and debug-assertions on".into(),
        ]
    }
    fn check(&self, case: &Case) -> Outcome {
        let src = case.text();
        let mutated_valid = !case.muts.is_empty() && !matches!(case.base, Base::Noise(_));
        let shown: String = src.chars().take(1500).collect();
        let answer = ask(&src);
        // Two recorded findings are recognised by the worker's own announcement at the call site
        // that writes ranges out (never by the look of the input):
        //  * more than 50,000 range elements requested: death by allocation failure, a 'capacity
        //    overflow' panic or silence is the eager expansion;
        //  * more than 4,000 range elements requested: death by stack overflow is the recursion
        //    over an expression chain that has one link per element.
        let range_class = |what: &str| format!("range-of-user-size-written-out:{what}");
        let level = answer.range_level;
        let notice = answer.range_notice.clone().unwrap_or_default();
        let in_solver = answer.solver_stage.as_deref().map(|s| format!(":in-{s}")).unwrap_or_default();
        match answer.end {
            End::Report { reached, panicked_in, panic } => match panicked_in {
                Some(stage) => {
                    let msg = panic.unwrap_or_default();
                    if level >= 2 && msg == "capacity overflow" {
                        return Outcome::fail(range_class("capacity-overflow"), format!("{msg} after announcing range {notice}\ninput:\n{shown}"));
                    }
                    let stable: String = msg.chars().take(70).map(|c| if c.is_ascii_digit() { '#' } else { c }).collect();
                    Outcome::fail(format!("panic-in-{stage}:{stable}"), format!("{msg}\ninput:\n{shown}"))
                }
                None => {
                    let past_parse = reached.len() > 1;
                    let mut labels: Vec<String> = vec![format!("reached:{}", reached.last().cloned().unwrap_or_default())];
                    if mutated_valid {
                        labels.push("mutated-valid-program".into());
                    }
                    if level >= 1 {
                        labels.push(format!("range-level-{level}-finished-in-time"));
                    }
                    Outcome::Pass { nontrivial: past_parse || mutated_valid, labels }
                }
            },
            End::Died(status) => {
                let cause = status.split('|').next().unwrap_or("").to_string();
                if cause == "stack-overflow" && level >= 1 {
                    Outcome::fail("expression-chain-of-user-size:stack-overflow".to_string(), format!("worker died ({status}) after announcing range {notice}\ninput:\n{shown}"))
                } else if cause == "allocation-failure" && level >= 2 {
                    Outcome::fail(range_class("out-of-memory"), format!("worker died ({status}) after announcing range {notice}\ninput:\n{shown}"))
                } else {
                    let class = if cause == "allocation-failure" && in_solver == ":in-auto_solver" && wide_integer_range(&src) { ":wide-integer-range" } else { "" };
                    Outcome::fail(format!("worker-process-died:{cause}{in_solver}{class}"), format!("{status}\nrange announced: {notice}\ninput:\n{shown}"))
                }
            }
            End::Hang => {
                if level >= 2 {
                    Outcome::fail(range_class("not-finished"), format!("no answer after announcing range {notice}\ninput:\n{shown}"))
                } else {
                    // silence inside the MILP / LP solver: is the model one of the two classes on which
                    // the microlp dependency is recorded never to return (C05, C15)?
                    let class = if in_solver == ":in-auto_solver" && microlp_hang_class(&src) {
                        ":microlp-hang-class"
                    } else if in_solver == ":in-auto_solver" && wide_integer_range(&src) {
                        ":wide-integer-range"
                    } else {
                        ""
                    };
                    Outcome::fail(format!("no-answer-within-{WATCHDOG_S}s{in_solver}{class}"), format!("range announced: {notice}\ninput:\n{shown}"))
                }
            }
        }
    }
}

/// Writes a seed corpus for the libFuzzer target: the literal programs and a fixed sample of the
/// structured generator (unmutated and mutated).
pub fn dump_corpus(dir: &str) {
    use proptest::strategy::ValueTree;
    use proptest::test_runner::{Config, RngAlgorithm, TestRng, TestRunner};
    std::fs::create_dir_all(dir).unwrap();
    let mut n = 0;
    let mut put = |text: String| {
        std::fs::write(format!("{dir}/seed_{n:03}.rooc"), text).unwrap();
        n += 1;
    };
    for l in literals().into_iter().chain(crate::props::c19::literals()) {
        put(l);
    }
    let mut runner = TestRunner::new_with_rng(Config::default(), TestRng::from_seed(RngAlgorithm::ChaCha, &[7u8; 32]));
    let strategy = C18.strategy(Tier::Quick);
    let mut kept = 0;
    while kept < 120 {
        let case = strategy.new_tree(&mut runner).unwrap().current();
        if matches!(case.base, Base::Noise(_)) {
            continue;
        }
        put(case.text());
        kept += 1;
    }
}

/// Compiles the input in-process (the worker had already passed these stages) and asks the exact
/// oracle whether the linear model belongs to the recorded microlp hang classes.
fn microlp_hang_class(src: &str) -> bool {
    let compiled = std::panic::catch_unwind(|| {
        let model = rooc::RoocParser::new(src.to_string()).parse_and_transform(vec![], &indexmap::IndexMap::new()).ok()?;
        rooc::Linearizer::linearize(model).ok()
    });
    let Ok(Some(lin)) = compiled else { return false };
    if lin.variables().len() > 24 || lin.constraints().len() > 48 {
        return false;
    }
    let case = crate::gen::lin::LinCase::from_rooc(&lin);
    if !crate::props::c05::has_free_var(&case) {
        return false;
    }
    let truth = crate::oracle::rat::solve_milp(&case.to_problem());
    crate::props::c05::hang_prone(&case, &truth)
}

/// Does the compiled model hold an integer variable whose range is wider than 1000? (branch and
/// bound without a node limit walks such a range value by value when the relaxation stays
/// fractional: the recorded solver-stage finding)
fn wide_integer_range(src: &str) -> bool {
    let compiled = std::panic::catch_unwind(|| {
        let model = rooc::RoocParser::new(src.to_string()).parse_and_transform(vec![], &indexmap::IndexMap::new()).ok()?;
        rooc::Linearizer::linearize(model).ok()
    });
    let Ok(Some(lin)) = compiled else { return false };
    lin.domain().values().any(|d| matches!(d.get_type(), rooc::VariableType::IntegerRange(lo, hi) if (*hi as i64 - *lo as i64) > 1000))
}
