//! C19 — type checking is sound (DESIGN.md §5.19).

use crate::gen::data::{data_prog, DataProg};
use crate::gen::model::{model_case_biased, ModelParams};
use crate::gen::mutate::{apply, Mutation};
use crate::props::c03::Case as TextCase;
use crate::runner::{Outcome, Prop, Tier};
use indexmap::IndexMap;
use proptest::prelude::*;
use rooc::model_transformer::TransformError;
use rooc::{PrimitiveKind, RoocParser};
use serde::{Deserialize, Serialize};

pub struct C19;

#[derive(Clone, Debug, Serialize, Deserialize)]
pub enum Base {
    Data(DataProg),
    Model(TextCase),
    Literal(String),
}

#[derive(Clone, Debug, Serialize, Deserialize)]
pub struct Case {
    pub base: Base,
    pub muts: Vec<Mutation>,
}

/// values of every kind, function calls with right and wrong arity, undeclared names
pub const REPLACEMENTS: [&str; 40] = [
    "3", "2.5", "0", "\"s\"", "true", "false", "[1, 2]", "[1.5, 2.5]", "[[1, 2], [3, 4]]", "[1, \"s\"]", "[]", "[\"a\", \"b\"]", "[true, false]",
    "GG", "AA", "SS", "nn", "MM", "NN2", "BB",
    "len(AA)", "len(AA, AA)", "len()", "len(nn)", "enumerate(AA)", "enumerate(AA, 1)", "enum(SS)", "edges(GG)", "edges(AA)", "nodes(GG)",
    "zip(AA, MM)", "zip(nn)", "neigh_edges_of(\"A\", GG)", "neigh_edges_of(1, GG)", "union(AA, SS)", "range(0, 3, false)", "range(0, \"a\", 1)",
    "foo(AA)", "qq", "AA[0]",
];

/// explicit forms the generated table only reaches by luck
const EXTRA: [&str; 20] = [
    "range(0, 3, -BB)", "range(0, 3, BB)", "range(0, nn, !BB)", "range(BB, 3, false)", "edges(GG, GG)", "union(AA, AA, AA)", "nodes(GG, 1)",
    "neigh_edges(\"A\", GG)", "len(AA, 1)", "zip(AA, AA, AA)",
    // block and scoped functions where a compile-time value is needed
    "max { 1, 2 }", "min { nn, 3 }", "abs { nn }", "avg { 1, 3 }", "sum(i in AA) { i }", "prod(i in 0..nn) { 2 }", "max(i in AA) { i }", "len(AA) + max { 1, 2 }", "any { BB, true }", "sum(i in AA) { i } / 2",
];

/// every builtin (both spellings) applied to 0..=3 arguments drawn from atoms of every kind, plus
/// sign / negation applied to atoms of every kind: the systematic part of the replacement list
fn generated_replacements() -> Vec<String> {
    const FUNS: [&str; 16] = ["len", "enumerate", "enum", "edges", "E", "nodes", "V", "neigh_edges", "N", "neigh_edges_of", "N_of", "range", "zip", "union", "difference", "intersection"];
    const ATOMS: [&str; 12] = ["AA", "GG", "SS", "nn", "BB", "NN2", "3", "\"A\"", "true", "2.5", "AA[0]", "-BB"];
    let mut out = vec![];
    for f in FUNS {
        out.push(format!("{f}()"));
        for a in ATOMS {
            out.push(format!("{f}({a})"));
        }
        // two and three arguments: a diagonal slice of the atom pairs keeps the list small
        for (i, a) in ATOMS.iter().enumerate() {
            let b = ATOMS[(i * 5 + 1) % ATOMS.len()];
            let c = ATOMS[(i * 7 + 2) % ATOMS.len()];
            out.push(format!("{f}({a}, {a})"));
            out.push(format!("{f}({a}, {b})"));
            out.push(format!("{f}({a}, {b}, {c})"));
            out.push(format!("{f}({a}, {a}, {a})"));
        }
    }
    // arithmetic between atoms of every pair of kinds (the static kind of the result has to be the
    // kind the runtime produces: an integer bound written `2 + 0.5` is not an integer)
    for (i, a) in ATOMS.iter().enumerate() {
        for op in ["+", "-", "*", "/"] {
            let b = ATOMS[(i * 5 + 3) % ATOMS.len()];
            out.push(format!("{a} {op} {b}"));
            out.push(format!("{a} {op} 0.5"));
            out.push(format!("2 {op} {a}"));
        }
    }
    for a in ATOMS {
        out.push(format!("-{a}"));
        out.push(format!("!{a}"));
        out.push(format!("!(-{a})"));
        out.push(format!("(-{a} and {a})"));
        out.push(format!("({a} or -{a})"));
        out.push(format!("(not {a} -> {a})"));
        out.push(format!("-(-{a})"));
    }
    out
}

fn all_replacements() -> &'static Vec<&'static str> {
    static CELL: std::sync::OnceLock<Vec<&'static str>> = std::sync::OnceLock::new();
    CELL.get_or_init(|| {
        // the hand-written forms and the generated table get about the same weight
        let mut v: Vec<&'static str> = vec![];
        for _ in 0..12 {
            v.extend(REPLACEMENTS);
            v.extend(EXTRA);
        }
        for g in generated_replacements() {
            v.push(Box::leak(g.into_boxed_str()));
        }
        v
    })
}

/// constants that make the names used by the replacements exist
const PRELUDE: [&str; 7] = [
    "let GG = Graph { A -> [B: 2, C], B -> [C], C }",
    "let AA = [4, 5, 6]",
    "let SS = \"hello\"",
    "let nn = 2",
    "let MM = [1, \"s\", true]",
    "let NN2 = [[1, 2], [3, 4]]",
    "let BB = true",
];

fn with_prelude(src: &str) -> String {
    let prelude: String = PRELUDE.iter().map(|l| format!("    {l}\n")).collect();
    if let Some(i) = src.find("\nwhere\n") {
        let (a, b) = src.split_at(i + "\nwhere\n".len());
        format!("{a}{prelude}{b}")
    } else if let Some(i) = src.find("\ndefine\n") {
        let (a, b) = src.split_at(i + 1);
        format!("{a}where\n{prelude}{b}")
    } else {
        format!("{src}\nwhere\n{prelude}")
    }
}

impl Case {
    pub fn text(&self) -> String {
        let base = match &self.base {
            Base::Data(d) => d.texts().0,
            Base::Model(m) => m.text(),
            Base::Literal(s) => s.clone(),
        };
        // mutate the program body only, then add the prelude (its constants are never mutated)
        // this check transforms in-process: the one range of the shared list that asks for 2^63
        // elements (the recorded C18 finding) is replaced by a small one
        with_prelude(&apply(&base, &self.muts, all_replacements()).replace("0..=9223372036854775807", "0..=2"))
    }
}

/// Does the text hold an array literal whose elements are of different kinds, or an empty one?
/// rooc types such a literal `Any[]`, its elements pass the checker in every position.
fn has_any_typed_array(text: &str) -> bool {
    let cs: Vec<char> = text.chars().collect();
    // stack of element-kind sets of the open brackets
    let mut stack: Vec<(std::collections::BTreeSet<String>, usize)> = vec![];
    let mut i = 0;
    let mut found = false;
    let note = |stack: &mut Vec<(std::collections::BTreeSet<String>, usize)>, k: &str| {
        if let Some(top) = stack.last_mut() {
            top.0.insert(k.to_string());
            top.1 += 1;
        }
    };
    while i < cs.len() {
        let c = cs[i];
        if c == '[' {
            // array access `name[...]` is not a literal
            let is_access = i > 0 && (cs[i - 1].is_alphanumeric() || cs[i - 1] == ']' || cs[i - 1] == '_');
            if is_access {
                // skip to the matching bracket
                let mut depth = 0;
                while i < cs.len() {
                    if cs[i] == '[' {
                        depth += 1;
                    } else if cs[i] == ']' {
                        depth -= 1;
                        if depth == 0 {
                            break;
                        }
                    }
                    i += 1;
                }
            } else {
                stack.push((Default::default(), 0));
            }
        } else if c == ']' {
            if let Some((kinds, n)) = stack.pop() {
                if kinds.len() > 1 || n == 0 {
                    found = true;
                }
                // an array of integers and an array of numbers are elements of different kinds too
                let kind = format!("a<{}>", kinds.into_iter().collect::<Vec<_>>().join(","));
                note(&mut stack, &kind);
            }
        } else if c == '"' {
            i += 1;
            while i < cs.len() && cs[i] != '"' {
                i += 1;
            }
            note(&mut stack, "s");
        } else if c.is_ascii_digit() && !stack.is_empty() {
            let mut float = false;
            while i + 1 < cs.len() && (cs[i + 1].is_ascii_digit() || cs[i + 1] == '.') {
                if cs[i + 1] == '.' {
                    float = true;
                }
                i += 1;
            }
            note(&mut stack, if float { "f" } else { "i" });
        } else if c.is_alphabetic() && !stack.is_empty() {
            let st = i;
            while i + 1 < cs.len() && cs[i + 1].is_alphanumeric() {
                i += 1;
            }
            let w: String = cs[st..=i].iter().collect();
            note(&mut stack, if w == "true" || w == "false" { "b" } else { "n" });
        }
        i += 1;
    }
    found
}

/// `x_7` (or `x_j` with `j` bound to nothing, which is the literal name `x_j`) when the program
/// declares a family `x_i as ... for i in ...` with that many indexes: which members a family has
/// is data (the length of an array, the nodes of a graph), so a missing member is the indexed
/// counterpart of "index out of range", not a statically undeclared variable.
fn missing_member_of_declared_family(e: &TransformError, src: &str) -> bool {
    let TransformError::UndeclaredVariable(name) = e.base_error() else { return false };
    if std::env::var("VERIF_C19_NOFAMILY").is_ok() {
        return false;
    }
    let shape = |n: &str| -> Option<(String, usize)> {
        let n = n.trim().trim_start_matches('\\');
        let mut parts = n.split('_');
        let head = parts.next()?.to_string();
        let count = parts.count();
        if head.is_empty() || count == 0 {
            None
        } else {
            Some((head, count))
        }
    };
    let Some(wanted) = shape(name) else { return false };
    let Some(define) = src.rsplit("define").next().filter(|_| src.contains("define")) else { return false };
    define.lines().any(|line| match line.split(" as ").next() {
        Some(vars) if line.contains(" as ") && line.split(" as ").nth(1).is_some_and(|t| t.contains("for")) => vars.split(',').any(|v| shape(v) == Some(wanted.clone())),
        _ => false,
    })
}

/// A Number where an Integer is required is a failed cast on the value almost everywhere (range
/// bounds and indexes are checked as "numeric" and `4 / 2` is fine at run time), but the bounds of
/// `IntegerRange(..)` are checked strictly: there the checker promises an Integer.
fn strict_integer_position(e: &TransformError, src: &str) -> Option<String> {
    match e.base_error() {
        TransformError::WrongArgument { got: PrimitiveKind::Number, expected: PrimitiveKind::Integer } => {
            // the innermost span of the error is the declaration itself (an error in its iteration
            // or in a nested call has a deeper span of its own)
            let inside = e
                .origin_span()
                .and_then(|s| s.span_text(src).ok().map(|t| t.to_string()))
                .map(|t| t.contains("IntegerRange(") && {
                    // the fractional value must be written inside the parentheses, not in the `for`
                    let args = t.split("IntegerRange(").nth(1).unwrap_or("");
                    let args = args.split(')').next().unwrap_or("");
                    args.contains('.') || args.contains('/')
                })
                .unwrap_or(false);
            if inside {
                Some("WrongArgument:got=Number:expected=Integer:in-IntegerRange-bound".into())
            } else {
                None
            }
        }
        _ => None,
    }
}

/// `UndeclaredVariable(x)` for a plain name that the `define` section does declare.
fn declared_decision_variable(e: &TransformError, src: &str) -> bool {
    let TransformError::UndeclaredVariable(name) = e.base_error() else { return false };
    let Some(define) = src.rsplit("define").next().filter(|_| src.contains("define")) else { return false };
    define.lines().any(|line| match line.split(" as ").next() {
        Some(vars) if line.contains(" as ") => vars.split(',').any(|v| v.trim().trim_start_matches('\\') == name),
        _ => false,
    })
}

const RANGE_GUARD: &str = "VERIF-RANGE-GUARD";
thread_local! {
    static RANGE_BUDGET: std::cell::Cell<i128> = const { std::cell::Cell::new(0) };
}

fn range_guard(from: i64, to: i64, inclusive: bool) {
    let len = if to >= from { to as i128 - from as i128 + inclusive as i128 } else { 0 };
    let left = RANGE_BUDGET.with(|b| {
        b.set(b.get() - len);
        b.get()
    });
    if left < 0 {
        panic!("{}", RANGE_GUARD);
    }
}

fn numeric(k: &PrimitiveKind) -> bool {
    matches!(k, PrimitiveKind::Number | PrimitiveKind::Integer | PrimitiveKind::PositiveInteger | PrimitiveKind::Boolean)
}

/// `Some(kind)` when the error is a type-class error: one the checker exists to rule out.
fn type_class(e: &TransformError) -> Option<String> {
    match e.base_error() {
        TransformError::WrongArgument { got, expected } => {
            if numeric(got) && numeric(expected) {
                None // numeric cast that failed on the value (0..2.5, a[1.5], negative index)
            } else {
                Some(format!("WrongArgument:got={got}:expected={expected}"))
            }
        }
        TransformError::WrongExpectedArgument { got, .. } => {
            if numeric(got) {
                None
            } else {
                Some(format!("WrongExpectedArgument:got={got}"))
            }
        }
        TransformError::WrongFunctionSignature { .. } => Some("WrongFunctionSignature".into()),
        TransformError::WrongNumberOfArguments { .. } => Some("WrongNumberOfArguments".into()),
        TransformError::NonExistentFunction(_) => Some("NonExistentFunction".into()),
        TransformError::UnOpError { exp, .. } => Some(format!("UnOpError:{exp}")),
        TransformError::BinOpError { lhs, rhs, .. } => {
            if numeric(lhs) && numeric(rhs) {
                None // division by zero / overflow are reported this way
            } else {
                Some(format!("BinOpError:{lhs}:{rhs}"))
            }
        }
        TransformError::Unspreadable(k) => Some(format!("Unspreadable:{k}")),
        TransformError::SpreadError { .. } => Some("SpreadError".into()),
        TransformError::UndeclaredVariable(_) => Some("UndeclaredVariable".into()),
        TransformError::Other(m) if m.starts_with("Cannot destructure tuple") => Some("TupleArity".into()),
        // data-dependent or unclassified
        TransformError::OutOfBounds(_)
        | TransformError::TooLarge { .. }
        | TransformError::AlreadyDeclaredVariable(_)
        | TransformError::AlreadyDeclaredDomainVariable(_)
        | TransformError::UndeclaredVariableDomain(_)
        | TransformError::AlreadyDefined { .. }
        | TransformError::Other(_) => None,
        TransformError::SpannedError { .. } => None,
    }
}

const PARAMS: ModelParams = ModelParams { max_vars: 3, max_cons: 3, depth: 3, inexact: false, unbounded_decl: false, objective: true };

pub fn literals() -> Vec<String> {
    vec![
        "min sum(u in nodes(G)) { x_u }\ns.t.\n    x_v + sum((_, u) in neigh_edges(v)) { x_u } >= 1 for v in nodes(G)\n    sum((_, u, w) in neigh_edges_of(\"A\", G)) { w * x_u } <= len(edges(G))\nwhere\n    let G = Graph { A -> [B: 2, C], B -> [C], C }\ndefine\n    x_u as Boolean for u in nodes(G)".into(),
        "max sum((v, i) in enumerate(vals)) { v * x_i } - avg(row in M) { len(row) } * y\ns.t.\n    sum((w, i) in enum(ws)) { w * x_i } <= cap\n    x_{i + 1} <= x_i for i in 0..len(vals) - 1\n    sum((p, q) in zip(vals, ws)) { p * q * y } >= 0\n    sum(i in union(ws, vals)) { i } * y <= 100\nwhere\n    let vals = [3, 1, 2]\n    let ws = [2, 2, 3]\n    let cap = 4\n    let M = [[1, 2], [3, 4]]\ndefine\n    x_i as Boolean for i in 0..len(vals)\n    y as Real(0, 10)".into(),
        "min sum(i in 0..k) { x_i }\ns.t.\n    x_i >= f for i in 0..k\n    x_0 <= 1 + h\n    x_1 <= 1 + -t\nwhere\n    let vals = [3, 1, 2]\n    let t = true\n    let b = t and t\n    let c = !t\n    let d = t or c\n    let e = (t -> c) <-> b\n    let k = len(vals) - 1\n    let f = vals[0] * 2\n    let h = vals[k] / 2\ndefine\n    x_i as Real(0, 10) for i in 0..k".into(),
        "min y\ns.t.\n    c_i: y <= len(vals) for i in vals\n    d_t: y >= 0 for t in vals\n    e_u: y + x_u >= 0 for u in nodes(G)\n    f_i_j: y <= 9 for i in vals, j in 0..2\nwhere\n    let vals = [3, 1, 2]\n    let G = Graph { A -> [B], B }\ndefine\n    y as Real(0, 10)\n    x_u as Boolean for u in nodes(G)".into(),
    ]
}

impl Prop for C19 {
    type Case = Case;
    fn id(&self) -> &'static str {
        "C19"
    }
    fn strategy(&self, _tier: Tier) -> BoxedStrategy<Case> {
        let base = prop_oneof![
            5 => data_prog().prop_map(Base::Data),
            2 => (model_case_biased(PARAMS), any::<u64>()).prop_map(|(mut model, style)| {
                model.structural_logic = true;
                model.mark_all_used = false;
                Base::Model(TextCase { model, style, consts: vec![] })
            }),
            4 => (0usize..4).prop_map(|i| Base::Literal(literals()[i].clone())),
        ];
        let m = prop_oneof![
            8 => (any::<u16>(), any::<u16>()).prop_map(|(at, with)| Mutation::Replace { at, with }),
            1 => (any::<u16>(), any::<u16>()).prop_map(|(at, with)| Mutation::Insert { at, with }),
            1 => any::<u16>().prop_map(|at| Mutation::Swap { at }),
            1 => any::<u16>().prop_map(|at| Mutation::GrowTuple { at }),
            1 => (any::<u16>(), any::<u16>()).prop_map(|(at, with)| Mutation::ReplaceRange { at, with }),
            // a name of the program in another position: a decision variable where a constant is
            // needed, a constant where an iteration variable is bound, ...
            2 => (any::<u16>(), any::<u16>()).prop_map(|(at, with)| Mutation::ReplaceWord { at, with }),
        ];
        (base, proptest::collection::vec(m, 0..=3)).prop_map(|(base, muts)| Case { base, muts }).boxed()
    }
    fn budget(&self, tier: Tier) -> usize {
        match tier {
            Tier::Quick => 400_000,
            Tier::Thorough => 6_000_000,
        }
    }
    fn canon(&self, c: &Case) -> String {
        serde_json::to_string(&c.text()).unwrap()
    }
    fn rule(&self) -> String {
        "well-typed programs (C06's data-driven pieces, C03's typed models, two literal programs using every builtin) whose operand, index, bound, iterator and argument tokens are replaced by values of other kinds (numbers, strings, booleans, arrays of every element kind incl. mixed and empty, nested arrays, graphs, named constants of every kind), by builtin calls with right and wrong arity and argument kinds, by unknown functions and undeclared names; up to three replacements / insertions / swaps per program. Whenever type_check accepts the program, transform must not fail with a type-class error (wrong argument type or count, operator not applicable to its operand kinds, unspreadable / wrong-arity destructuring, unknown function, undeclared variable); data-dependent failures (index out of range, a missing member of a declared indexed family, division by zero, too large, duplicate declaration, numeric casts that fail on the value) are allowed. Non-trivial = the checker accepted a mutated program that contains a function call or an iteration. Distinct = distinct program text.".into()
    }
    fn check(&self, case: &Case) -> Outcome {
        let src = case.text();
        let parser = RoocParser::new(src.clone());
        let pre = match parser.parse() {
            Ok(p) => p,
            Err(_) => return Outcome::Skip("mutation broke the syntax".into()),
        };
        let fns = IndexMap::new();
        if let Err(e) = pre.create_type_checker(&vec![], &fns) {
            let kind = type_class(&e).map(|k| k.split(':').next().unwrap_or("").to_string()).unwrap_or_else(|| "other".into());
            return Outcome::Pass { nontrivial: false, labels: vec![format!("checker-rejects:{kind}")] };
        }
        let mutated = !case.muts.is_empty();
        let interesting = src.contains('(') && (src.contains(" in ") || src.contains("len("));
        // this check transforms in-process: a mutated range that asks for millions of elements (the
        // recorded C18 finding) is cut short through the range observer and the case is skipped
        RANGE_BUDGET.with(|b| b.set(200_000));
        rooc::verif_hooks::set_range_observer(Some(range_guard));
        let transformed = std::panic::catch_unwind(std::panic::AssertUnwindSafe(|| pre.transform(vec![], &fns)));
        rooc::verif_hooks::set_range_observer(None);
        let transformed = match transformed {
            Ok(t) => t,
            Err(p) => {
                let msg = p.downcast_ref::<String>().cloned().or_else(|| p.downcast_ref::<&str>().map(|s| s.to_string())).unwrap_or_default();
                if msg == RANGE_GUARD {
                    return Outcome::Skip("mutated range too large for an in-process transform".into());
                }
                std::panic::resume_unwind(p);
            }
        };
        match transformed {
            Ok(_) => Outcome::Pass { nontrivial: mutated && interesting, labels: vec!["accepted-and-transformed".into()] },
            Err(e) => match type_class(&e).or_else(|| strict_integer_position(&e, &src)).filter(|_| !missing_member_of_declared_family(&e, &src)) {
                None => Outcome::Pass { nontrivial: mutated && interesting, labels: vec!["accepted:data-dependent-failure".into()] },
                Some(kind) => {
                    // the recorded limitation: values whose static kind is Any (elements of mixed or
                    // empty array literals) are accepted wherever a specific kind is needed
                    let body = match &case.base {
                        Base::Data(d) => d.texts().0,
                        Base::Model(m) => m.text(),
                        Base::Literal(l) => l.clone(),
                    };
                    let body = apply(&body, &case.muts, all_replacements()).replace("0..=9223372036854775807", "0..=2");
                    let any_typed = has_any_typed_array(&body) || crate::gen::mutate::split(&body).contains(&crate::gen::mutate::Piece::Word("MM".into()));
                    // second recorded limitation: a block or scoped function (max { 1, 2 }, sum(..) { .. })
                    // is typed Number, but the transformer cannot evaluate one where a value is needed
                    // at compile time; PreExp::as_primitive answers exactly this error for it
                    let class = if kind == "WrongArgument:got=Undefined:expected=Any" {
                        ":block-function-where-a-value-is-needed"
                    } else if declared_decision_variable(&e, &src) {
                        // third recorded limitation: a decision variable is typed like a number; used
                        // where a value is needed inside a `define` line the transformer does not know
                        // it yet and calls it undeclared (elsewhere it says "is a domain variable")
                        ":decision-variable-where-a-value-is-needed"
                    } else if any_typed {
                        ":program-holds-any-typed-array"
                    } else {
                        ""
                    };
                    Outcome::fail(
                        format!("type-class-error-after-accept:{}{class}", kind.split(':').next().unwrap_or("")),
                        format!("{kind}\n{}\nprogram:\n{src}", e.traced_error()),
                    )
                }
            },
        }
    }
}
