//! C15 — limits and tolerances never turn into wrong answers (DESIGN.md §5.15).

use crate::gen::lin::{lin_case, Dom, LinCase, LinParams, LinRow, Sense, R};
use crate::oracle::rat::{solve_milp, Verdict};
use crate::props::solvers::{check_solution, hang_seconds, Sol, LEAKED};
use crate::runner::{Outcome, Prop, Tier};
use num_traits::ToPrimitive;
use proptest::prelude::*;
use rooc::{solve_milp_lp_problem_with, LinearModel, LpSolution, MILPValue, Microlp, MilpOptions, ModelBuilder, SolutionStatus, SolverError};
use serde::{Deserialize, Serialize};
use std::time::Duration;

pub struct C15;

#[derive(Clone, Debug, Serialize, Deserialize)]
pub struct Case {
    pub model: LinCase,
    /// microseconds; None = no limit
    pub time_limit_us: Option<u64>,
    /// 0 none, otherwise index into GAPS
    pub gap: u8,
    /// deterministic branch-and-bound node limit through the verification hook
    pub node_limit: Option<u64>,
    /// solve through ModelBuilder::solve_with(Microlp) instead of the function
    pub via_builder: bool,
}

const GAPS: [f64; 9] = [0.0, 0.0, 1e-3, 0.1, 0.5, 10.0, -1.0, f64::NAN, f64::INFINITY];

impl Case {
    fn gap_value(&self) -> Option<f64> {
        if self.gap == 0 {
            None
        } else {
            Some(GAPS[self.gap as usize % GAPS.len()])
        }
    }
}

const SMALL: LinParams = LinParams {
    max_vars: 6,
    max_rows: 4,
    coef_range: 6,
    quarters: false,
    allow_discrete: true,
    allow_satisfy: false,
    allow_offset: true,
    exotic_names: false,
    continuous_only: false,
};

fn knapsack() -> BoxedStrategy<LinCase> {
    knapsack_of(15, 28)
}

/// small knapsacks whose objective is rescaled: values that differ in the fifth digit (10000 + d,
/// 1e6 + d: a default gap or a pruning slack shows as a wrong "Optimal") or lie below one (v / 100,
/// v / 1000: a relative gap mistaken for an absolute one shows the same way)
fn rescaled_knapsack() -> BoxedStrategy<LinCase> {
    (knapsack_of(6, 14), 0u8..4)
        .prop_map(|(mut m, mode)| {
            for v in m.obj.iter_mut() {
                *v = match mode {
                    0 => 10000.0 + (*v as i64 % 3) as f64,
                    1 => *v / 100.0,
                    2 => 1_000_000.0 + (*v as i64 % 2) as f64,
                    _ => *v / 1000.0,
                };
            }
            m
        })
        .boxed()
}

/// "pick exactly k of n" with values that differ in the last digit only and a capacity row that
/// excludes some picks: the relaxation bound is tight from the start, so whether the first integer
/// point found is also returned as Optimal depends only on the gap in force
fn near_tie_selection() -> BoxedStrategy<LinCase> {
    (3usize..=8)
        .prop_flat_map(|n| {
            (
                proptest::collection::vec(0i32..=2, n),
                proptest::collection::vec(1i32..=12, n),
                1usize..=3,
                30u32..=80,
                prop_oneof![Just(10000.0), Just(1_000_000.0), Just(250_000.0)],
                any::<bool>(),
            )
        })
        .prop_map(|(deltas, weights, k, fill, base, maximise)| {
            let n = deltas.len();
            let k = k.min(n - 1).max(1);
            let total: i32 = weights.iter().sum();
            let cap = ((total as f64) * (fill as f64) / 100.0).floor().max(*weights.iter().min().unwrap() as f64 * k as f64);
            LinCase {
                vars: (0..n).map(|i| (format!("x{i}"), Dom::Bool)).collect(),
                rows: vec![
                    LinRow { name: "cap".into(), coef: weights.iter().map(|v| *v as f64).collect(), rel: R::Le, rhs: cap },
                    LinRow { name: "pick".into(), coef: vec![1.0; n], rel: R::Eq, rhs: k as f64 },
                ],
                obj: deltas.iter().map(|d| base + *d as f64).collect(),
                offset: 0.0,
                sense: if maximise { Sense::Max } else { Sense::Min },
            }
        })
        .boxed()
}

fn knapsack_of(min_items: usize, max_items: usize) -> BoxedStrategy<LinCase> {
    (min_items..=max_items, 1usize..=3)
        .prop_flat_map(|(n, rows)| {
            (
                proptest::collection::vec(1i32..=40, n),
                proptest::collection::vec(proptest::collection::vec(1i32..=12, n), rows),
                proptest::collection::vec(25u32..=60, rows),
                any::<bool>(),
            )
        })
        .prop_map(|(values, weights, fill, as_int)| {
            let n = values.len();
            let rows = weights
                .iter()
                .zip(&fill)
                .map(|(w, f)| {
                    let total: i32 = w.iter().sum();
                    LinRow { name: String::new(), coef: w.iter().map(|v| *v as f64).collect(), rel: R::Le, rhs: (total as f64 * *f as f64 / 100.0).floor() }
                })
                .collect();
            LinCase {
                vars: (0..n).map(|i| (format!("x{i}"), if as_int && i % 5 == 0 { Dom::Int(0, 1) } else { Dom::Bool })).collect(),
                rows,
                obj: values.iter().map(|v| *v as f64).collect(),
                offset: 0.0,
                sense: Sense::Max,
            }
        })
        .boxed()
}

/// exact optimum of a 0/1 knapsack with up to three integer capacity rows (dynamic programming)
fn knapsack_optimum(c: &LinCase) -> Option<f64> {
    let dims: Vec<usize> = c.rows.iter().map(|r| r.rhs as usize + 1).collect();
    let size: usize = dims.iter().product();
    if size > 2_000_000 {
        return None;
    }
    let mut best = vec![0.0f64; size];
    let strides: Vec<usize> = {
        let mut s = vec![1usize; dims.len()];
        for k in 1..dims.len() {
            s[k] = s[k - 1] * dims[k - 1];
        }
        s
    };
    for i in 0..c.n() {
        let w: Vec<usize> = c.rows.iter().map(|r| r.coef[i] as usize).collect();
        let v = c.obj[i];
        // iterate states downward so each item is used once
        for state in (0..size).rev() {
            let mut ok = true;
            let mut prev = state;
            for k in 0..dims.len() {
                let cap = (state / strides[k]) % dims[k];
                if cap < w[k] {
                    ok = false;
                    break;
                }
                prev -= w[k] * strides[k];
            }
            if ok && best[prev] + v > best[state] {
                best[state] = best[prev] + v;
            }
        }
    }
    Some(best[size - 1])
}

fn is_knapsack(c: &LinCase) -> bool {
    c.n() >= 15
}

enum Run {
    Ok(Sol),
    Err(SolverError),
    Hang,
}

fn to_sol(s: &LpSolution<MILPValue>) -> Sol {
    let names: Vec<String> = s.assignment().iter().map(|a| a.name.clone()).collect();
    Sol {
        kinds: names.iter().map(|_| 'm').collect(),
        values: s.assignment().iter().map(|a| f64::from(a.value)).collect(),
        by_name: names.iter().map(|n| s.value_of(n).map(f64::from)).collect(),
        names,
        value: s.value(),
        constraints: s.constraints().iter().map(|(k, v)| (k.clone(), *v)).collect(),
        status: s.status(),
        shadow: vec![],
    }
}

pub fn builder_of_pub(c: &LinCase) -> ModelBuilder {
    builder_of(c)
}

fn builder_of(c: &LinCase) -> ModelBuilder {
    use rooc::{BuilderConstraint, Expr};
    let mut b = ModelBuilder::new();
    let hs: Vec<rooc::Var> = c.vars.iter().map(|(n, d)| b.add_var(n.clone(), d.to_rooc())).collect();
    let lin = |coef: &[f64]| -> Expr {
        let mut e = Expr::from(0.0);
        for (k, v) in coef.iter().zip(&hs) {
            if *k != 0.0 {
                e = e + *k * *v;
            }
        }
        e
    };
    let mut b = b;
    for r in &c.rows {
        b = b.with(BuilderConstraint::new(lin(&r.coef), r.rel.to_rooc(), Expr::from(r.rhs), r.name.clone()));
    }
    let obj = lin(&c.obj) + c.offset;
    match c.sense {
        Sense::Min => b.minimize(obj),
        Sense::Max => b.maximize(obj),
        Sense::Satisfy => b.satisfy(),
    }
}

fn run(case: &Case, model: &LinearModel) -> Run {
    let (tx, rx) = std::sync::mpsc::channel();
    let m = model.clone();
    let c = case.clone();
    std::thread::Builder::new()
        .stack_size(8 << 20)
        .spawn(move || {
            rooc::verif_hooks::set_milp_node_limit(c.node_limit);
            let opts = MilpOptions { mip_gap: c.gap_value(), time_limit: c.time_limit_us.map(Duration::from_micros) };
            let r = if c.via_builder {
                let mut s = Microlp::new();
                if let Some(g) = opts.mip_gap {
                    s = s.with_mip_gap(g);
                }
                if let Some(t) = opts.time_limit {
                    s = s.with_time_limit(t);
                }
                match builder_of(&c.model).solve_with(s) {
                    Ok(sol) => Ok(to_sol(sol.solution())),
                    Err(rooc::BuilderError::Solver(e)) => Err(e),
                    Err(e) => Err(SolverError::Other(format!("builder: {e}"))),
                }
            } else {
                solve_milp_lp_problem_with(&m, &opts).map(|s| to_sol(&s))
            };
            rooc::verif_hooks::set_milp_node_limit(None);
            let _ = tx.send(r);
        })
        .expect("spawn");
    // a time limit that is longer than the watchdog must be allowed to run out
    let budget = Duration::from_secs(hang_seconds() * 2).max(case.time_limit_us.map(Duration::from_micros).unwrap_or_default() + Duration::from_secs(5));
    match rx.recv_timeout(budget) {
        Ok(Ok(s)) => Run::Ok(s),
        Ok(Err(e)) => Run::Err(e),
        Err(_) => {
            LEAKED.fetch_add(1, std::sync::atomic::Ordering::SeqCst);
            Run::Hang
        }
    }
}

impl Prop for C15 {
    type Case = Case;
    fn id(&self) -> &'static str {
        "C15"
    }
    fn strategy(&self, _tier: Tier) -> BoxedStrategy<Case> {
        let model = prop_oneof![4 => lin_case(SMALL), 5 => knapsack(), 3 => rescaled_knapsack(), 3 => near_tie_selection()];
        let time = prop_oneof![
            4 => Just(None),
            1 => Just(Some(0u64)),
            1 => Just(Some(1)),
            1 => Just(Some(10)),
            1 => Just(Some(100)),
            1 => Just(Some(1_000)),
            1 => Just(Some(1_000_000)),
            // a limit that never fires: setting one must not change what "Optimal" means
            2 => Just(Some(8_000_000)),
        ];
        let gap = prop_oneof![3 => Just(0u8), 5 => 1u8..=5, 2 => 6u8..=8];
        let node = prop_oneof![
            4 => Just(None),
            1 => Just(Some(0u64)),
            1 => Just(Some(1)),
            1 => Just(Some(2)),
            1 => Just(Some(5)),
            1 => Just(Some(20)),
            1 => Just(Some(200)),
        ];
        (model, time, gap, node, any::<bool>())
            .prop_map(|(model, time_limit_us, gap, node_limit, via_builder)| Case { model, time_limit_us, gap, node_limit, via_builder })
            .boxed()
    }
    fn budget(&self, tier: Tier) -> usize {
        match tier {
            Tier::Quick => 5_000,
            Tier::Thorough => 120_000,
        }
    }
    fn canon(&self, c: &Case) -> String {
        serde_json::to_string(&format!("{} time={:?}us gap={:?} nodes={:?} builder={}", c.model.pretty(), c.time_limit_us, c.gap_value(), c.node_limit, c.via_builder)).unwrap()
    }
    fn rule(&self) -> String {
        "mixed-integer models of two families - small general ones (<=6 Boolean / integer / real variables, <=4 rows; exact optimum by rational branch and bound) and 0/1 knapsacks with 15-28 items and 1-3 capacity rows (exact optimum by dynamic programming), sized so that branch and bound needs many nodes - crossed with time limits {none, 0, 1us, 10us, 100us, 1ms, 1s}, MIP gaps {none, 0, 1e-3, 0.1, 0.5, 10, -1, NaN, +inf} and, through the guarded hook, deterministic node limits {none, 0, 1, 2, 5, 20, 200}; solved through solve_milp_lp_problem_with and through ModelBuilder::solve_with(Microlp::new()...). Oracle (independent of where the clock stopped the search): an invalid gap is an error; a returned solution is feasible for the model and self-consistent (C04's certificate check); status Optimal => objective within the requested gap of the exact optimum; status Feasible => feasibility only; an infeasible verdict only for infeasible models; without any limit the answer is the exact verdict. Non-trivial = a limit or a positive gap was set on a model with >=10 integer variables, or the answer is not the exact optimum. Distinct = distinct case text.".into()
    }
    fn assumptions(&self) -> Vec<String> {
        vec!["wall-clock limits make coverage (which runs are interrupted) vary between runs; the verdict of every run is judged by a timing-independent oracle".into()]
    }
    fn check(&self, case: &Case) -> Outcome {
        let c = &case.model;
        let model = c.to_rooc();
        let truth: Option<Verdict> = if is_knapsack(c) {
            knapsack_optimum(c).map(|v| Verdict::Optimal { value: crate::oracle::rat::big(v), x: vec![] })
        } else {
            Some(solve_milp(&c.to_problem()))
        };
        let Some(truth) = truth else { return Outcome::Skip("dp table too large".into()) };
        let gap = case.gap_value();
        let invalid_gap = matches!(gap, Some(g) if !(g.is_finite() && g >= 0.0));
        let limited = case.time_limit_us.is_some() || case.node_limit.is_some();
        let ctx = |s: String| format!("{s}\ntime limit {:?} us, gap {:?}, node limit {:?}, builder {}\n{}", case.time_limit_us, gap, case.node_limit, case.via_builder, c.pretty());
        let mut labels = vec![];
        if crate::props::c05::skip_hang_prone(c, &truth) {
            return Outcome::Pass { nontrivial: false, labels: vec!["excluded-known-hang-class".into()] };
        }
        let outcome = run(case, &model);
        match outcome {
            Run::Hang => {
                if crate::props::c05::in_known_hang_class(c, &truth) {
                    return Outcome::fail("Hang:mixed-integer+unbounded+free-var", ctx(String::new()));
                }
                if matches!(truth, Verdict::Infeasible) && crate::props::c05::hang_prone(c, &truth) {
                    return Outcome::fail("Hang:integer-infeasible+unbounded-relaxation+free-var", ctx(String::new()));
                }
                if crate::props::c05::hang_prone(c, &truth) {
                    return Outcome::fail("Hang:unbounded-optimal-face+free-var", ctx(String::new()));
                }
                Outcome::fail("solve-did-not-return", ctx(format!("no answer within {}s", hang_seconds() * 2)))
            }
            Run::Err(e) => {
                labels.push(format!("err:{}", match &e { SolverError::Infeasible => "Infeasible", SolverError::Unbounded => "Unbounded", SolverError::LimitReached => "LimitReached", _ => "Other" }));
                if invalid_gap {
                    return Outcome::Pass { nontrivial: true, labels };
                }
                match (&e, &truth) {
                    (SolverError::Infeasible, Verdict::Infeasible) | (SolverError::Unbounded, Verdict::Unbounded) => Outcome::Pass { nontrivial: false, labels },
                    (SolverError::Infeasible, t) => {
                        // recorded finding (C03): through the builder the model is compiled first, and a
                        // published range narrower than 1e-9 makes the dependency answer Infeasible
                        let class = if case.via_builder && builder_of(&case.model).linearize().map(|l| crate::props::c03::narrow_published_range(&l)).unwrap_or(false) {
                            ":published-range-narrower-than-1e-9"
                        } else {
                            ""
                        };
                        Outcome::fail(format!("infeasible-verdict-vs-{}{class}", crate::props::c05::verdict_name(t)), ctx(String::new()))
                    }
                    (SolverError::Unbounded, t) => {
                        let class = crate::props::c05::microlp_class(c, t, crate::props::solvers::Which::Milp, &crate::props::solvers::Ans::Unbounded);
                        Outcome::fail(format!("unbounded-verdict-vs-{}{class}", crate::props::c05::verdict_name(t)), ctx(String::new()))
                    }
                    (other, t) => {
                        if limited {
                            // stopped before an answer was available: an error is what the property asks for
                            Outcome::Pass { nontrivial: c.n() >= 10, labels }
                        } else {
                            let class = crate::props::c05::microlp_class(c, t, crate::props::solvers::Which::Milp, &crate::props::solvers::Ans::Other(other.to_string()));
                            Outcome::fail(format!("error-without-any-limit{class}"), ctx(other.to_string()))
                        }
                    }
                }
            }
            Run::Ok(sol) => {
                labels.push(format!("ok:{:?}", sol.status));
                if invalid_gap {
                    return Outcome::fail("invalid-gap-accepted", ctx(format!("returned value {}", sol.value)));
                }
                if let Err((sig, d)) = check_solution(c, "milp", &sol, 1e-6) {
                    return Outcome::fail(format!("returned-solution:{}", sig.trim_start_matches("milp:")), ctx(format!("status {:?}: {d}", sol.status)));
                }
                match (&truth, sol.status) {
                    (Verdict::Optimal { value, .. }, SolutionStatus::Optimal) => {
                        let opt = value.to_f64().unwrap_or(f64::NAN);
                        let g = gap.unwrap_or(0.0);
                        let allowed = g * sol.value.abs().max(opt.abs()).max(1e-9) + 1e-6 * (1.0 + opt.abs());
                        if (sol.value - opt).abs() > allowed {
                            return Outcome::fail(
                                "labelled-optimal-but-outside-the-gap",
                                ctx(format!("value {} vs exact optimum {opt}, allowed deviation {allowed}", sol.value)),
                            );
                        }
                        let exact = (sol.value - opt).abs() <= 1e-6 * (1.0 + opt.abs());
                        Outcome::Pass { nontrivial: (limited || g > 0.0) && c.n() >= 10 || !exact, labels }
                    }
                    (Verdict::Optimal { .. }, SolutionStatus::Feasible) => Outcome::Pass { nontrivial: true, labels },
                    (t, s) => Outcome::fail(
                        format!("solution-returned-vs-{}", crate::props::c05::verdict_name(t)),
                        ctx(format!("status {s:?}, value {}", sol.value)),
                    ),
                }
            }
        }
    }
}
