//! C16 — all front doors agree (DESIGN.md §5.16).

use crate::gen::lin::{Dom, LinCase};
use crate::gen::model::{model_case_biased, ModelCase, ModelParams, SObj};
use crate::oracle::rat::{big, Big};
use crate::oracle::sem::{Env, SExp};
use crate::props::c03::Case as TextCase;
use crate::props::solvers::{hang_seconds, LEAKED};
use crate::runner::{Outcome, Prop, Tier};
use indexmap::IndexMap;
use num_traits::{Signed, ToPrimitive};
use proptest::prelude::*;
use rooc::builder::{abs, all, any as any_of, max, min};
use rooc::pipe::{AutoSolverPipe, CompilerPipe, LinearModelPipe, MILPSolverPipe, ModelPipe, PipeContext, PipeRunner, PipeableData, PreModelPipe, RealSolver};
use rooc::{
    auto_solver, Auto, BuilderConstraint, BuilderError, Constant, Expr, LinearModel, Linearizer, MILPValue, ModelBuilder, Primitive,
    RoocParser, RoocSolver, RoocSolverError, SolverError, Var,
};
use serde::{Deserialize, Serialize};

pub struct C16;

#[derive(Clone, Debug, Serialize, Deserialize)]
pub struct Case {
    pub text: TextCase,
    /// how constants reach the text door: 0 inline, 1 `where` block, 2 passed through the API
    pub const_mode: u8,
    /// builder call order: bit 0 objective first, bit 1 `with_all` instead of `with`, bit 2 add an
    /// unused variable, bit 3 constraints in two batches around the objective
    pub order: u8,
}

/// operand of a builder operator, kept as specific as the source shape allows so that every
/// `impl std::ops::*` arm of the builder (Var/Expr/f64/i32/bool on either side, by value or by
/// reference) is the one a user would hit
enum Opd {
    Num(f64),
    V(Var),
    E(Expr),
}

fn opd(e: &SExp, h: &IndexMap<String, Var>) -> Opd {
    match e {
        SExp::Num(v) => Opd::Num(*v),
        SExp::Var(n) => Opd::V(h[n]),
        other => Opd::E(to_expr(other, h)),
    }
}

/// an f64 that is a small integer is passed as `i32` on odd positions (both overload families exist)
fn as_i32(c: f64, flip: bool) -> Option<i32> {
    if flip && c.fract() == 0.0 && c.abs() < 1e6 && !(c == 0.0 && c.is_sign_negative()) {
        Some(c as i32)
    } else {
        None
    }
}

macro_rules! arith {
    ($a:expr, $b:expr, $flip:expr, $op:tt) => {
        match ($a, $b) {
            (Opd::Num(x), Opd::Num(y)) => Expr::from(x) $op Expr::from(y),
            (Opd::Num(c), Opd::V(v)) => match as_i32(c, $flip) {
                Some(i) => i $op v,
                None => c $op v,
            },
            (Opd::V(v), Opd::Num(c)) => match as_i32(c, $flip) {
                Some(i) => v $op i,
                None => v $op c,
            },
            (Opd::Num(c), Opd::E(e)) => match as_i32(c, $flip) {
                Some(i) => i $op e,
                None => c $op e,
            },
            (Opd::E(e), Opd::Num(c)) => match as_i32(c, $flip) {
                Some(i) => e $op i,
                None => e $op c,
            },
            (Opd::V(v), Opd::V(w)) => v $op w,
            (Opd::V(v), Opd::E(e)) => v $op e,
            (Opd::E(e), Opd::V(v)) => e $op v,
            (Opd::E(e), Opd::E(f)) => {
                if $flip {
                    e $op &f
                } else {
                    e $op f
                }
            }
        }
    };
}

macro_rules! logic {
    ($a:expr, $b:expr, $op:tt) => {
        match ($a, $b) {
            (Opd::V(v), Opd::V(w)) => v $op w,
            (Opd::V(v), Opd::E(e)) => v $op e,
            (Opd::E(e), Opd::V(v)) => e $op v,
            (a, b) => into_expr(a) $op into_expr(b),
        }
    };
}

fn into_expr(o: Opd) -> Expr {
    match o {
        Opd::Num(v) => Expr::from(v),
        Opd::V(v) => Expr::from(v),
        Opd::E(e) => e,
    }
}

fn is_bool_literal(o: &Opd) -> Option<bool> {
    match o {
        Opd::Num(v) if *v == 1.0 => Some(true),
        Opd::Num(v) if *v == 0.0 && !v.is_sign_negative() => Some(false),
        _ => None,
    }
}

fn to_expr(e: &SExp, h: &IndexMap<String, Var>) -> Expr {
    to_expr_at(e, h, 0)
}

/// `pos` alternates the f64 / i32 and by-value / by-reference overloads along the tree
fn to_expr_at(e: &SExp, h: &IndexMap<String, Var>, pos: usize) -> Expr {
    let r = |x: &SExp| to_expr_at(x, h, pos + 1);
    let o = |x: &SExp| match x {
        SExp::Num(_) | SExp::Var(_) => opd(x, h),
        other => Opd::E(to_expr_at(other, h, pos + 1)),
    };
    let flip = pos % 2 == 1;
    match e {
        SExp::Num(v) => Expr::from(*v),
        SExp::Var(n) => Expr::from(h[n]),
        SExp::Neg(a) => match o(a) {
            Opd::V(v) => -v,
            other => -into_expr(other),
        },
        SExp::Add(a, b) => arith!(o(a), o(b), flip, +),
        SExp::Sub(a, b) => arith!(o(a), o(b), flip, -),
        SExp::Mul(a, b) => arith!(o(a), o(b), flip, *),
        SExp::Div(a, b) => arith!(o(a), o(b), flip, /),
        SExp::Abs(a) => abs(r(a)),
        SExp::Min(v) => min(v.iter().map(r).collect::<Vec<_>>()),
        SExp::Max(v) => max(v.iter().map(r).collect::<Vec<_>>()),
        SExp::Not(a) => match o(a) {
            Opd::V(v) => !v,
            other => !into_expr(other),
        },
        SExp::And(v) if v.len() == 2 => {
            let (a, b) = (o(&v[0]), o(&v[1]));
            match (is_bool_literal(&a), is_bool_literal(&b)) {
                (Some(t), None) => match b {
                    Opd::V(w) => t & w,
                    other => t & into_expr(other),
                },
                (None, Some(t)) => match a {
                    Opd::V(w) => w & t,
                    other => into_expr(other) & t,
                },
                _ => logic!(a, b, &),
            }
        }
        SExp::Or(v) if v.len() == 2 => {
            let (a, b) = (o(&v[0]), o(&v[1]));
            match (is_bool_literal(&a), is_bool_literal(&b)) {
                (Some(t), None) => match b {
                    Opd::V(w) => t | w,
                    other => t | into_expr(other),
                },
                (None, Some(t)) => match a {
                    Opd::V(w) => w | t,
                    other => into_expr(other) | t,
                },
                _ => logic!(a, b, |),
            }
        }
        SExp::And(v) => all(v.iter().map(r).collect::<Vec<_>>()),
        SExp::Or(v) => any_of(v.iter().map(r).collect::<Vec<_>>()),
        SExp::Xor(a, b) => logic!(o(a), o(b), ^),
        SExp::Implies(a, b) => match (o(a), o(b)) {
            (Opd::V(v), Opd::V(w)) => v.implies(w),
            (Opd::V(v), other) => v.implies(into_expr(other)),
            (x, Opd::V(w)) => into_expr(x).implies(w),
            (x, y) => into_expr(x).implies(into_expr(y)),
        },
        SExp::Iff(a, b) => match (o(a), o(b)) {
            (Opd::V(v), Opd::V(w)) => v.iff(w),
            (Opd::V(v), other) => v.iff(into_expr(other)),
            (x, Opd::V(w)) => into_expr(x).iff(w),
            (x, y) => into_expr(x).iff(into_expr(y)),
        },
    }
}

struct Built {
    builder: ModelBuilder,
    handles: IndexMap<String, Var>,
    unused: Option<(String, Var, Dom)>,
}

fn build(m: &ModelCase, order: u8) -> Built {
    let mut b = ModelBuilder::new();
    let mut handles = IndexMap::new();
    for (name, dom) in &m.vars {
        handles.insert(name.clone(), b.add_var(name.clone(), dom.to_rooc()));
    }
    let unused = if order & 4 != 0 {
        let d = Dom::Int(2, 5);
        let v = b.add_var("unusedvar", d.to_rooc());
        Some(("unusedvar".to_string(), v, d))
    } else {
        None
    };
    let cons: Vec<BuilderConstraint> = m
        .cons
        .iter()
        .map(|c| {
            if c.bare {
                BuilderConstraint::new_logic_assertion(to_expr(&c.lhs, &handles), c.name.clone())
            } else {
                BuilderConstraint::new(to_expr(&c.lhs, &handles), c.rel.to_rooc(), to_expr(&c.rhs, &handles), c.name.clone())
            }
        })
        .collect();
    let set_obj = |b: ModelBuilder| match &m.obj {
        SObj::Min(e) => b.minimize(to_expr(e, &handles)),
        SObj::Max(e) => b.maximize(to_expr(e, &handles)),
        SObj::Satisfy => b.satisfy(),
    };
    let add = |b: ModelBuilder, cs: Vec<BuilderConstraint>| {
        if order & 2 != 0 {
            b.with_all(cs)
        } else {
            cs.into_iter().fold(b, |b, c| b.with(c))
        }
    };
    let builder = if order & 8 != 0 {
        let k = cons.len() / 2;
        let (first, second) = (cons[..k].to_vec(), cons[k..].to_vec());
        add(set_obj(add(b, first)), second)
    } else if order & 1 != 0 {
        add(set_obj(b), cons)
    } else {
        set_obj(add(b, cons))
    };
    Built { builder, handles, unused }
}

/// drop declared-but-unused variables (all-zero column): the builder keeps them, the text drops them
fn canonical(c: &LinCase) -> LinCase {
    let keep: Vec<usize> = (0..c.n()).filter(|&j| c.obj[j] != 0.0 || c.rows.iter().any(|r| r.coef[j] != 0.0)).collect();
    LinCase {
        vars: keep.iter().map(|&j| c.vars[j].clone()).collect(),
        rows: c
            .rows
            .iter()
            .map(|r| crate::gen::lin::LinRow { name: r.name.clone(), coef: keep.iter().map(|&j| r.coef[j]).collect(), rel: r.rel, rhs: r.rhs })
            .collect(),
        obj: keep.iter().map(|&j| c.obj[j]).collect(),
        offset: c.offset,
        sense: c.sense,
    }
}

fn identical(a: &LinCase, b: &LinCase) -> Result<(), String> {
    if a.vars != b.vars {
        return Err(format!("variables/domains {:?} vs {:?}", a.vars, b.vars));
    }
    if a.sense != b.sense || a.obj != b.obj || (a.offset != b.offset && a.sense != crate::gen::lin::Sense::Satisfy) {
        return Err(format!("objective {:?} {:?} {} vs {:?} {:?} {}", a.sense, a.obj, a.offset, b.sense, b.obj, b.offset));
    }
    if a.rows.len() != b.rows.len() {
        return Err(format!("{} rows vs {}", a.rows.len(), b.rows.len()));
    }
    for (i, (x, y)) in a.rows.iter().zip(&b.rows).enumerate() {
        if x.name != y.name || x.coef != y.coef || x.rel != y.rel || x.rhs != y.rhs {
            return Err(format!("row {i}: {:?} {:?} {:?} {} vs {:?} {:?} {:?} {}", x.name, x.coef, x.rel, x.rhs, y.name, y.coef, y.rel, y.rhs));
        }
    }
    Ok(())
}

#[derive(Debug, Clone)]
enum Verdict {
    Ok(f64),
    Infeasible,
    Unbounded,
    Other(String),
}

impl Verdict {
    fn agrees(&self, o: &Verdict) -> bool {
        match (self, o) {
            (Verdict::Ok(a), Verdict::Ok(b)) => (a - b).abs() <= 1e-6 * (1.0 + a.abs()),
            (Verdict::Infeasible, Verdict::Infeasible) | (Verdict::Unbounded, Verdict::Unbounded) => true,
            _ => false,
        }
    }
}

fn solver_verdict(e: &SolverError) -> Verdict {
    match e {
        SolverError::Infeasible => Verdict::Infeasible,
        SolverError::Unbounded => Verdict::Unbounded,
        e => Verdict::Other(e.to_string()),
    }
}

const PARAMS: ModelParams = ModelParams { max_vars: 4, max_cons: 4, depth: 3, inexact: false, unbounded_decl: false, objective: true };

impl Prop for C16 {
    type Case = Case;
    fn id(&self) -> &'static str {
        "C16"
    }
    fn strategy(&self, _tier: Tier) -> BoxedStrategy<Case> {
        let consts = proptest::collection::vec(prop_oneof![Just(2.0), Just(3.0), Just(-1.0), Just(0.5), Just(-2.0)], 0..=2).prop_map(|mut v| {
            v.dedup();
            v
        });
        (model_case_biased(PARAMS), any::<u64>(), consts, 0u8..3, 0u8..16)
            .prop_map(|(mut model, style, consts, const_mode, order)| {
                model.structural_logic = true;
                model.mark_all_used = false;
                Case { text: TextCase { model, style, consts }, const_mode, order }
            })
            .boxed()
    }
    fn budget(&self, tier: Tier) -> usize {
        match tier {
            Tier::Quick => 8_000,
            Tier::Thorough => 250_000,
        }
    }
    fn canon(&self, c: &Case) -> String {
        serde_json::to_string(&format!("{} // consts {} order {}", c.text.text(), c.const_mode, c.order)).unwrap()
    }
    fn rule(&self) -> String {
        "one generated model (typed grammar of C03, bounded domains, named / logic / arithmetic constraints, min / max / solve) realised through four doors: (1) ModelBuilder - variables via add_var, expressions via the std operator overloads (+ - * / unary -, & | ^ !), implies/iff methods and the abs/min/max/all/any helpers, constraints via with or with_all, objective before, after or between the constraints, optionally an extra declared-but-unused variable; (2) source text with constants inline, in a where block, or passed as Constants through the API, compiled with RoocParser + Linearizer; (3) PipeRunner [CompilerPipe, PreModelPipe, ModelPipe, LinearModelPipe, AutoSolverPipe], and the same chain ending in MILPSolverPipe and, for models without discrete variables, in RealSolver; (4) RoocSolver::solve_with_data_using(auto_solver). Oracle: text and pipe linear models identical; builder linear model identical to the text one row for row after dropping unused variables; all doors give the same verdict and optimal value; BuilderSolution var_value / numeric_value / value_of agree, eval(expr) equals the harness's exact evaluation at the solution, value() equals the objective there, the unused variable resolves inside its domain. The macro doors are covered by C16's macro stratum: the enumerated constraint!/expr! table and every declaration form of vars! (scalar and array, each domain keyword with and without bounds) compared with the domain it stands for. Non-trivial = a logic and an arithmetic constraint, and an unused variable or a permuted call order. Distinct = distinct case text.".into()
    }
    fn fixed_cases(&self, _tier: Tier) -> Vec<Case> {
        // order = 255 selects the macro-table stratum (one case that walks the whole table)
        use crate::gen::model::ModelCase;
        vec![Case {
            text: TextCase {
                model: ModelCase { vars: vec![], cons: vec![], obj: SObj::Satisfy, structural_logic: true, mark_all_used: false, point_seed: 0 },
                style: 0,
                consts: vec![],
            },
            const_mode: 0,
            order: 255,
        }]
    }
    fn extra_coverage(&self) -> serde_json::Map<String, serde_json::Value> {
        let (n, bad) = crate::props::macro_table::check_all();
        let mut m = serde_json::Map::new();
        m.insert("macro_table_entries".into(), (n as u64).into());
        m.insert("macro_table_mismatches".into(), serde_json::to_value(bad.iter().take(10).collect::<Vec<_>>()).unwrap());
        m
    }
    fn check(&self, case: &Case) -> Outcome {
        if case.order == 255 {
            let (vars_forms, vars_bad) = crate::props::macro_table::check_vars_macro();
            if !vars_bad.is_empty() {
                return Outcome::fail("vars-macro-declares-another-domain".to_string(), format!("{} of {vars_forms} declarations:\n{}", vars_bad.len(), vars_bad.join("\n")));
            }
            let (n, bad) = crate::props::macro_table::check_all();
            if bad.is_empty() {
                return Outcome::Pass { nontrivial: true, labels: vec![format!("macro-table:{n}")] };
            }
            // one signature per grouping class
            let iff_before_implies = |m: &str| {
                let mac = m.split(" | ").next().unwrap_or("");
                match (mac.find("<->"), mac.rfind("->")) {
                    (Some(i), Some(j)) => i < j && mac[i + 3..].contains("->"),
                    _ => false,
                }
            };
            let (known_class, other): (Vec<&String>, Vec<&String>) = bad.iter().partition(|m| iff_before_implies(m));
            let mut fails = vec![];
            if !known_class.is_empty() {
                fails.push(("macro-groups-differently:iff-left-of-implies".to_string(), format!("{} of {n} entries, e.g. {}", known_class.len(), known_class[0])));
            }
            if !other.is_empty() {
                fails.push(("macro-groups-differently".to_string(), format!("{} of {n} entries, e.g. {}", other.len(), other[0])));
            }
            return Outcome::Multi(fails);
        }
        // everything runs on a helper thread: a solver that never returns must not freeze the harness
        let (tx, rx) = std::sync::mpsc::channel();
        let c = case.clone();
        std::thread::Builder::new()
            .stack_size(8 << 20)
            .spawn(move || {
                let r = std::panic::catch_unwind(|| check_inner(&c));
                let _ = tx.send(r.unwrap_or_else(|p| {
                    let msg = p.downcast_ref::<String>().cloned().or_else(|| p.downcast_ref::<&str>().map(|s| s.to_string())).unwrap_or_default();
                    Outcome::fail("panic", msg)
                }));
            })
            .expect("spawn");
        match rx.recv_timeout(std::time::Duration::from_secs(hang_seconds() * 4)) {
            Ok(o) => o,
            Err(_) => {
                LEAKED.fetch_add(1, std::sync::atomic::Ordering::SeqCst);
                Outcome::fail("a-door-did-not-return", case.text.text())
            }
        }
    }
}

fn check_inner(case: &Case) -> Outcome {
    let m = &case.text.model;
    // ---- text door -------------------------------------------------------------------------
    let mut tc = case.text.clone();
    let mut api_constants: Vec<Constant> = vec![];
    let src = match case.const_mode {
        0 => {
            tc.consts.clear();
            tc.text()
        }
        1 => tc.text(),
        _ => {
            // names k0.. are used in the text but defined through the API
            let full = tc.text();
            for (i, c) in tc.consts.iter().enumerate() {
                let prim = if c.fract() == 0.0 { Primitive::Integer(*c as i64) } else { Primitive::Number(*c) };
                api_constants.push(Constant::from_primitive(&format!("k{i}"), prim));
            }
            // strip the where block
            match (full.find("\nwhere\n"), full.find("\ndefine\n")) {
                (Some(w), Some(d)) => format!("{}{}", &full[..w], &full[d..]),
                _ => full,
            }
        }
    };
    let fns = IndexMap::new();
    let ctx = |s: String| format!("{s}\nsource:\n{src}");
    let text_model = match RoocParser::new(src.clone()).parse_and_transform(api_constants.clone(), &fns) {
        Ok(mm) => mm,
        Err(e) => return Outcome::fail("text-door-rejects", ctx(e)),
    };
    let text_lin: Result<LinearModel, String> = Linearizer::linearize(text_model).map_err(|e| e.to_string());
    // ---- builder door ----------------------------------------------------------------------
    let built = build(m, case.order);
    let builder_lin = built.builder.clone().linearize().map_err(|e| e.to_string());
    let (text_lin, builder_lin) = match (text_lin, builder_lin) {
        (Ok(a), Ok(b)) => (a, b),
        (Err(_), Err(_)) => return Outcome::Skip("both doors reject at linearization".into()),
        (Ok(_), Err(e)) => return Outcome::fail("only-builder-rejects", ctx(e)),
        (Err(e), Ok(_)) => return Outcome::fail("only-text-rejects", ctx(e)),
    };
    let mut fails: Vec<(String, String)> = vec![];
    let lt = LinCase::from_rooc(&text_lin);
    let lb = LinCase::from_rooc(&builder_lin);
    if let Err(d) = identical(&canonical(&lt), &canonical(&lb)) {
        fails.push(("builder-and-text-linear-models-differ".into(), ctx(format!("{d}\ntext:\n{text_lin}\nbuilder:\n{builder_lin}"))));
    }
    // ---- pipe door -------------------------------------------------------------------------
    let runner = PipeRunner::new(vec![
        Box::new(CompilerPipe::new()),
        Box::new(PreModelPipe::new()),
        Box::new(ModelPipe::new()),
        Box::new(LinearModelPipe::new()),
        Box::new(AutoSolverPipe::new()),
    ]);
    let pipe_ctx = PipeContext::new(api_constants.clone(), &fns);
    let (pipe_lin, pipe_verdict) = match runner.run(PipeableData::String(src.clone()), &pipe_ctx) {
        Ok(stages) => {
            let lin = stages.iter().find_map(|s| s.as_linear_model().ok().cloned());
            let v = stages.last().and_then(|s| match s {
                PipeableData::MILPSolution(s) => Some(Verdict::Ok(s.value())),
                _ => None,
            });
            (lin, v.unwrap_or(Verdict::Other("no solution stage".into())))
        }
        Err((e, stages)) => {
            let lin = stages.iter().find_map(|s| s.as_linear_model().ok().cloned());
            let v = match &e {
                rooc::pipe::PipeError::SolverError(se) => solver_verdict(se),
                other => Verdict::Other(other.to_string()),
            };
            (lin, v)
        }
    };
    match &pipe_lin {
        Some(pl) => {
            if let Err(d) = identical(&lt, &LinCase::from_rooc(pl)) {
                fails.push(("pipe-and-text-linear-models-differ".into(), ctx(d)));
            }
        }
        None => fails.push(("pipe-produced-no-linear-model".into(), ctx(format!("{pipe_verdict:?}")))),
    }
    // ---- the other solver stages of the pipe door ----------------------------------------------
    // same chain, last stage replaced: the MILP stage for every model, the real-valued stage for
    // models without discrete variables (it is the stage a user picks to read shadow prices)
    let continuous = lt.vars.iter().all(|v| !v.1.is_discrete());
    let mut other_pipes: Vec<(&str, Verdict)> = vec![];
    for (name, real) in [("pipe-milp", false), ("pipe-real", true)] {
        if real && !continuous {
            continue;
        }
        let last: Box<dyn rooc::pipe::Pipeable> = if real { Box::new(RealSolver::new()) } else { Box::new(MILPSolverPipe::new()) };
        let runner = PipeRunner::new(vec![
            Box::new(CompilerPipe::new()),
            Box::new(PreModelPipe::new()),
            Box::new(ModelPipe::new()),
            Box::new(LinearModelPipe::new()),
            last,
        ]);
        let v = match runner.run(PipeableData::String(src.clone()), &pipe_ctx) {
            Ok(stages) => match stages.last() {
                Some(PipeableData::MILPSolution(s)) => Verdict::Ok(s.value()),
                Some(PipeableData::RealSolution(s)) => Verdict::Ok(s.value()),
                _ => Verdict::Other("no solution stage".into()),
            },
            Err((rooc::pipe::PipeError::SolverError(se), _)) => solver_verdict(&se),
            Err((other, _)) => Verdict::Other(other.to_string()),
        };
        other_pipes.push((name, v));
    }
    // ---- verdicts --------------------------------------------------------------------------
    let text_verdict = match auto_solver(&text_lin) {
        Ok(s) => Verdict::Ok(s.value()),
        Err(e) => solver_verdict(&e),
    };
    let oneshot_verdict = match RoocSolver::try_new(src.clone()) {
        Err(e) => Verdict::Other(e.to_string_from_source(&src)),
        Ok(s) => match s.solve_with_data_using(auto_solver, api_constants.clone(), &fns) {
            Ok(sol) => Verdict::Ok(sol.value()),
            Err(RoocSolverError::Solver(e)) => solver_verdict(&e),
            Err(e) => Verdict::Other(e.to_string()),
        },
    };
    let builder_solution = built.builder.clone().solve_with(Auto);
    let builder_verdict = match &builder_solution {
        Ok(s) => Verdict::Ok(s.value()),
        Err(BuilderError::Solver(e)) => solver_verdict(e),
        Err(e) => Verdict::Other(e.to_string()),
    };
    let satisfy = matches!(m.obj, SObj::Satisfy);
    let mut doors: Vec<(&str, &Verdict)> = vec![("pipe", &pipe_verdict), ("one-shot", &oneshot_verdict), ("builder", &builder_verdict)];
    for (name, v) in &other_pipes {
        doors.push((name, v));
    }
    for (name, v) in doors {
        // the interior-point stage may fail to converge (Clarabel: "Max iterations reached"), which is
        // no verdict at all and is not compared (as in C05)
        if name == "pipe-real" && matches!(v, Verdict::Other(_)) {
            continue;
        }
        let ok = if satisfy {
            std::mem::discriminant(v) == std::mem::discriminant(&text_verdict)
        } else {
            v.agrees(&text_verdict)
        };
        if !ok {
            fails.push((format!("{name}-verdict-differs-from-text"), ctx(format!("text: {text_verdict:?}, {name}: {v:?}"))));
        }
    }
    // ---- read-back on the builder ------------------------------------------------------------
    if let Ok(sol) = &builder_solution {
        let mut env = Env::new();
        for (name, h) in &built.handles {
            let by_handle: Option<MILPValue> = sol.var_value(*h);
            let numeric = sol.numeric_value(*h);
            let by_name = sol.solution().value_of(name);
            match (by_handle, numeric, by_name) {
                (Some(a), Some(n), Some(b)) => {
                    let (fa, fb): (f64, f64) = (a.into(), b.into());
                    if fa != fb || n != fa {
                        fails.push(("handle-and-name-read-back-differ".into(), ctx(format!("{name}: var_value {fa}, numeric_value {n}, value_of {fb}"))));
                    }
                    env.insert(name.clone(), big(fa));
                }
                other => {
                    fails.push(("declared-variable-does-not-resolve".into(), ctx(format!("{name}: {other:?}"))));
                    return Outcome::Multi(fails);
                }
            }
        }
        if let Some((name, h, dom)) = &built.unused {
            match sol.numeric_value(*h) {
                Some(v) => {
                    let (lo, hi) = dom.bounds_f64();
                    if v < lo - 1e-9 || v > hi + 1e-9 || (v - v.round()).abs() > 1e-9 {
                        fails.push(("unused-variable-outside-its-domain".into(), ctx(format!("{name} = {v}, domain {dom:?}"))));
                    }
                }
                None => fails.push(("unused-variable-does-not-resolve".into(), ctx(name.clone()))),
            }
        }
        // eval(expr) against the reference semantics, on the objective and every constraint side
        let mut exps: Vec<&SExp> = vec![];
        if let SObj::Min(e) | SObj::Max(e) = &m.obj {
            exps.push(e);
        }
        for c in &m.cons {
            exps.push(&c.lhs);
            if !c.bare {
                exps.push(&c.rhs);
            }
        }
        for e in exps {
            let got = sol.eval(&to_expr(e, &built.handles));
            if let Some(want) = e.eval(&env) {
                let w = want.to_f64().unwrap_or(f64::NAN);
                if (got - w).abs() > 1e-9 * (1.0 + w.abs()) {
                    fails.push(("eval-differs-from-language-semantics".into(), ctx(format!("{}: eval {got}, reference {w}", crate::gen::text::print_min(e)))));
                    break;
                }
            }
        }
        if let SObj::Min(e) | SObj::Max(e) = &m.obj {
            if let Some(want) = e.eval(&env) {
                let tol = big(1e-6) * (want.abs() + big(1.0));
                if (big(sol.value()) - &want).abs() > tol {
                    fails.push(("builder-value-differs-from-objective-at-solution".into(), ctx(format!("value() {}, objective {}", sol.value(), want))));
                }
            }
        }
        let _: Option<Big> = None;
    }
    let has_logic = m.cons.iter().any(|c| c.bare || c.lhs.has_nonaffine());
    let has_arith = m.cons.iter().any(|c| !c.bare);
    let labels = vec![format!("const-mode:{}", case.const_mode), format!("text:{}", match text_verdict { Verdict::Ok(_) => "Ok", Verdict::Infeasible => "Infeasible", Verdict::Unbounded => "Unbounded", Verdict::Other(_) => "Other" })];
    Outcome::from_failures(fails, has_logic && has_arith && case.order != 0, labels)
}
