//! Runs every public stage of the compiler on one input string and reports how far it got.
//! Shared by the C18 worker process and the libFuzzer target (which `include!`s this file).

use indexmap::IndexMap;
use rooc::{auto_solver, Linearizer, RoocParser, VariableType};

#[derive(Debug, Default, Clone)]
pub struct StageReport {
    /// stages completed (with a result or a structured error), in order
    pub reached: Vec<&'static str>,
    /// the stage that was running when a panic happened
    pub panicked_in: Option<&'static str>,
    pub panic_message: Option<String>,
}

thread_local! {
    static STAGE: std::cell::Cell<&'static str> = const { std::cell::Cell::new("start") };
    /// called when a solver stage is about to start (the C18 worker tells its parent, so that a
    /// process that dies or goes silent inside a solver is known to have been there)
    static ANNOUNCE: std::cell::Cell<Option<fn(&'static str)>> = const { std::cell::Cell::new(None) };
}

#[allow(dead_code)]
pub fn set_stage_announcer(f: Option<fn(&'static str)>) {
    ANNOUNCE.with(|a| a.set(f));
}

fn stage(name: &'static str) {
    // debugging aid: VERIF_STAGE_TIMES=1 prints when each stage starts
    if std::env::var_os("VERIF_STAGE_TIMES").is_some() {
        eprintln!("[{:?}] {name}", std::time::SystemTime::now().duration_since(std::time::UNIX_EPOCH).map(|d| d.as_millis() % 100000).unwrap_or(0));
    }
    STAGE.with(|s| s.set(name));
    if matches!(name, "simplex" | "auto_solver") {
        if let Some(f) = ANNOUNCE.with(|a| a.get()) {
            f(name);
        }
    }
}

pub fn run_stages(src: &str) -> StageReport {
    let mut report = StageReport::default();
    let result = std::panic::catch_unwind(std::panic::AssertUnwindSafe(|| {
        let mut reached: Vec<&'static str> = vec![];
        let parser = RoocParser::new(src.to_string());
        let fns = IndexMap::new();
        stage("parse");
        let parsed = parser.parse();
        reached.push("parse");
        match &parsed {
            Err(e) => {
                stage("render-parse-error");
                let _ = e.to_string_from_source(src);
                let _ = e.to_error_string();
                let _ = format!("{e} {e:?}");
                return reached;
            }
            Ok(pre) => {
                stage("display-premodel");
                let _ = pre.to_string();
            }
        }
        stage("format");
        let formatted = parser.format();
        reached.push("format");
        if let Ok(f) = &formatted {
            // the formatter's output is input again
            stage("parse-formatted");
            let _ = RoocParser::new(f.clone()).parse();
        }
        stage("type_check");
        let checked = parser.type_check(&vec![], &fns);
        reached.push("type_check");
        stage("type_check-structured");
        if let Ok(pre) = &parsed {
            if let Err(e) = pre.create_type_checker(&vec![], &fns) {
                stage("render-type-error");
                let _ = e.trace_from_source(src);
                let _ = e.traced_error();
                let _ = format!("{e}");
                let _ = e.trace();
                let _ = e.origin_span();
            }
        }
        let _ = checked;
        stage("transform");
        let model = match parsed {
            Ok(pre) => pre.transform(vec![], &fns),
            Err(_) => return reached,
        };
        reached.push("transform");
        stage("parse_and_transform");
        let _ = parser.parse_and_transform(vec![], &fns);
        let model = match model {
            Ok(m) => m,
            Err(e) => {
                stage("render-transform-error");
                let _ = e.trace_from_source(src);
                let _ = e.traced_error();
                let _ = format!("{e}");
                return reached;
            }
        };
        stage("display-model");
        let _ = model.to_string();
        stage("linearize");
        let linear = match Linearizer::linearize(model) {
            Ok(l) => l,
            Err(e) => {
                reached.push("linearize");
                stage("render-linearization-error");
                let _ = e.to_string();
                return reached;
            }
        };
        reached.push("linearize");
        stage("display-linear-model");
        let _ = linear.to_string();
        let _ = linear.to_lp_format();
        stage("standardize");
        let continuous = linear
            .domain()
            .values()
            .all(|d| matches!(d.get_type(), VariableType::Real(_, _) | VariableType::NonNegativeReal(_, _)));
        // the standard form is a dense matrix: keep it under 2 million entries
        let rows = linear.constraints().len();
        let dense = rows.saturating_mul(linear.variables().len() + rows);
        if dense > 2_000_000 {
            return reached;
        }
        match linear.clone().into_standard_form() {
            Ok(std) => {
                reached.push("standardize");
                stage("display-standard-form");
                let _ = std.to_string();
                if continuous && linear.variables().len() <= 40 {
                    stage("tableau");
                    if let Ok(mut t) = std.into_tableau() {
                        stage("simplex");
                        let _ = t.solve(10_000);
                        reached.push("simplex");
                    }
                }
            }
            Err(e) => {
                reached.push("standardize");
                let _ = e.to_string();
            }
        }
        // an exponential search must not be mistaken for a hang
        let integers = linear
            .domain()
            .values()
            .filter(|d| matches!(d.get_type(), VariableType::Boolean | VariableType::IntegerRange(_, _)))
            .count();
        if integers <= 12 && linear.variables().len() <= 60 {
            stage("auto_solver");
            match auto_solver(&linear) {
                Ok(s) => {
                    let _ = s.to_string();
                }
                Err(e) => {
                    let _ = e.to_string();
                }
            }
            reached.push("solve");
        }
        reached
    }));
    match result {
        Ok(r) => report.reached = r,
        Err(p) => {
            report.panicked_in = Some(STAGE.with(|s| s.get()));
            report.panic_message = Some(
                p.downcast_ref::<String>()
                    .cloned()
                    .or_else(|| p.downcast_ref::<&str>().map(|s| s.to_string()))
                    .unwrap_or_else(|| "non-string panic".into()),
            );
        }
    }
    report
}
