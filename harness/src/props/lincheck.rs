//! Shared machinery for the linearization properties (C01 C02 C07 C08 C10 C16): compile a source
//! model with rooc, then decide exactly whether an assignment of the declared variables extends,
//! by some choice of the auxiliaries, to a point of the linear model.

use crate::gen::lin::{Dom, LinCase, Sense, R};
use crate::gen::model::{ModelCase, SObj};
use crate::oracle::rat::{big, solve_sys, Big, BigSys, Ext, Rel, Row};
use crate::oracle::sem::Env;
use num_traits::{Signed, ToPrimitive, Zero};
use rooc::{LinearModel, LinearizationError, Linearizer};

pub fn err_kind(e: &LinearizationError) -> &'static str {
    match e {
        LinearizationError::NonLinearExpression(_) => "NonLinearExpression",
        LinearizationError::DivisionByZero(_) => "DivisionByZero",
        LinearizationError::EmptyAggregation(_) => "EmptyAggregation",
        LinearizationError::VarAlreadyDeclared(_) => "VarAlreadyDeclared",
        LinearizationError::UnimplementedExpression(_) => "UnimplementedExpression",
        LinearizationError::NonBinaryLogicOperand(_) => "NonBinaryLogicOperand",
        LinearizationError::MissingFiniteBounds { .. } => "MissingFiniteBounds",
        LinearizationError::NonFiniteNumber(_) => "NonFiniteNumber",
    }
}

pub fn compile(case: &ModelCase) -> Result<LinearModel, LinearizationError> {
    Linearizer::linearize(case.to_rooc())
}

/// Result of the extension question at one point.
#[derive(Clone, Debug, PartialEq)]
pub enum Extension {
    /// no choice of auxiliaries works
    No,
    /// some choice works; with an objective: its best value in the model's direction (user frame,
    /// offset included); `Unbounded` when it can be made arbitrarily good
    Yes(Option<Big>),
    Unbounded,
}

fn slack_of(eps: f64, rhs: f64, mag: f64) -> Big {
    big(eps * (1.0 + rhs.abs() + mag))
}

/// `eps`: `None` = exact rows; `Some(e)` = every row and published bound relaxed by
/// `e * (1 + |rhs| + sum |a_i x_i|)` (used only to discount f64 rounding inside rooc).
pub fn extension(
    lin: &LinCase,
    declared: &[(String, Dom)],
    env: &Env,
    eps: Option<f64>,
    with_objective: bool,
) -> Extension {
    let n = lin.n();
    // classify columns
    let mut fixed: Vec<Option<Big>> = vec![None; n];
    let mut aux: Vec<usize> = vec![];
    if lin.vars.iter().any(|v| v.1.is_degenerate()) {
        // a published domain with a NaN / wrong-side-infinite bound contains no value
        return Extension::No;
    }
    // a declared variable the linear model dropped is still subject to its declaration
    for (name, dom) in declared {
        if lin.vars.iter().any(|v| &v.0 == name) {
            continue;
        }
        let Some(v) = env.get(name) else { return Extension::No };
        let (lo, hi) = dom.bounds();
        if lo.map(|l| *v < l).unwrap_or(false) || hi.map(|h| *v > h).unwrap_or(false) {
            return Extension::No;
        }
        if dom.is_discrete() && !v.is_integer() {
            return Extension::No;
        }
    }
    for (j, (name, dom)) in lin.vars.iter().enumerate() {
        if declared.iter().any(|d| &d.0 == name) {
            let v = match env.get(name) {
                Some(v) => v.clone(),
                None => return Extension::No,
            };
            // the published domain of a declared variable is part of the linear model
            let (lo, hi) = dom.bounds();
            let t = eps.map(|e| big(e * (1.0 + v.to_f64().unwrap_or(0.0).abs()))).unwrap_or_else(Big::zero);
            if let Some(l) = lo {
                if v < &l - &t {
                    return Extension::No;
                }
            }
            if let Some(h) = hi {
                if v > &h + &t {
                    return Extension::No;
                }
            }
            if dom.is_discrete() && !v.is_integer() {
                return Extension::No;
            }
            fixed[j] = Some(v);
        } else {
            aux.push(j);
        }
    }
    let na = aux.len();
    let mut sys = BigSys {
        n: na,
        lo: vec![None; na],
        hi: vec![None; na],
        int: vec![false; na],
        rows: vec![],
    };
    for (k, &j) in aux.iter().enumerate() {
        let (lo, hi) = lin.vars[j].1.bounds();
        sys.lo[k] = lo;
        sys.hi[k] = hi;
        sys.int[k] = lin.vars[j].1.is_discrete();
    }
    for r in &lin.rows {
        let mut constant = Big::zero();
        let mut mag = 0.0f64;
        for j in 0..n {
            if let Some(v) = &fixed[j] {
                if r.coef[j] != 0.0 {
                    let t = big(r.coef[j]) * v;
                    mag += t.to_f64().unwrap_or(0.0).abs();
                    constant += t;
                }
            }
        }
        let coef: Vec<Big> = aux.iter().map(|&j| big(r.coef[j])).collect();
        let rhs = big(r.rhs) - constant;
        let s = eps.map(|e| slack_of(e, r.rhs, mag)).unwrap_or_else(Big::zero);
        let all_zero = coef.iter().all(|c| c.is_zero());
        let mut push = |rel: Rel, rhs: Big| -> bool {
            if all_zero {
                match rel {
                    Rel::Le => !rhs.is_negative(),
                    Rel::Ge => !rhs.is_positive(),
                    Rel::Eq => rhs.is_zero(),
                }
            } else {
                sys.rows.push(Row {
                    coef: coef.clone(),
                    rel,
                    rhs,
                });
                true
            }
        };
        let ok = match r.rel {
            R::Le => push(Rel::Le, &rhs + &s),
            R::Ge => push(Rel::Ge, &rhs - &s),
            R::Eq => {
                if s.is_zero() {
                    push(Rel::Eq, rhs)
                } else {
                    push(Rel::Le, &rhs + &s) && push(Rel::Ge, &rhs - &s)
                }
            }
        };
        if !ok {
            return Extension::No;
        }
    }
    if !with_objective || lin.sense == Sense::Satisfy {
        return match solve_sys(&sys, None) {
            Ext::Infeasible => Extension::No,
            _ => Extension::Yes(None),
        };
    }
    // objective: constant part from the declared variables + offset, auxiliary part optimised
    let mut constant = big(lin.offset);
    for j in 0..n {
        if let Some(v) = &fixed[j] {
            if lin.obj[j] != 0.0 {
                constant += big(lin.obj[j]) * v;
            }
        }
    }
    let maximize = lin.sense == Sense::Max;
    let obj: Vec<Big> = aux
        .iter()
        .map(|&j| if maximize { -big(lin.obj[j]) } else { big(lin.obj[j]) })
        .collect();
    match solve_sys(&sys, Some(&obj)) {
        Ext::Infeasible => Extension::No,
        Ext::Unbounded => Extension::Unbounded,
        Ext::Feasible(v) => {
            let v = v.unwrap_or_else(Big::zero);
            Extension::Yes(Some(if maximize { constant - v } else { constant + v }))
        }
    }
}

/// the source objective at a point (user frame)
pub fn src_objective(case: &ModelCase, env: &Env) -> Option<Big> {
    match &case.obj {
        SObj::Min(e) | SObj::Max(e) => e.eval(env),
        SObj::Satisfy => None,
    }
}

/// Well-formedness of a compiled linear model (C08's invariant list). Returns the first broken
/// invariant as (signature, detail).
pub fn well_formed(
    m: &LinearModel,
    declared: &[(String, Dom)],
    source_vars: &[String],
    source_names: &[String],
) -> Result<(), (String, String)> {
    let vars = m.variables();
    for w in vars.windows(2) {
        if w[0] >= w[1] {
            return Err(("variables-not-strictly-sorted".into(), format!("{:?}", vars)));
        }
    }
    let keys: Vec<&String> = m.domain().keys().collect();
    let mut sorted_keys = keys.clone();
    sorted_keys.sort();
    if sorted_keys != vars.iter().collect::<Vec<_>>() {
        return Err((
            "variables-differ-from-domain-keys".into(),
            format!("variables {:?} domain keys {:?}", vars, keys),
        ));
    }
    for v in source_vars {
        if !vars.contains(v) {
            return Err((
                "source-variable-missing".into(),
                format!("{v} occurs in the source but not in the linear model {:?}", vars),
            ));
        }
    }
    if m.objective().len() != vars.len() {
        return Err((
            "objective-length".into(),
            format!("{} coefficients for {} variables", m.objective().len(), vars.len()),
        ));
    }
    if !m.objective_offset().is_finite() || m.objective().iter().any(|c| !c.is_finite()) {
        return Err((
            "non-finite-objective".into(),
            format!("objective {:?} offset {}", m.objective(), m.objective_offset()),
        ));
    }
    let mut names: Vec<String> = vec![];
    for (i, c) in m.constraints().iter().enumerate() {
        if c.coefficients().len() != vars.len() {
            return Err((
                "row-length".into(),
                format!("row {i} has {} coefficients for {} variables", c.coefficients().len(), vars.len()),
            ));
        }
        if c.coefficients().iter().any(|v| !v.is_finite()) {
            return Err(("non-finite-coefficient".into(), format!("row {i}: {:?}", c.coefficients())));
        }
        if !c.rhs().is_finite() {
            return Err(("non-finite-rhs".into(), format!("row {i}: rhs {}", c.rhs())));
        }
        let name = c.name();
        if !name.is_empty() {
            if names.contains(&name) {
                return Err(("duplicate-row-name".into(), format!("{name:?} used twice")));
            }
            names.push(name);
        }
    }
    // Every row name is a user name or a de-duplicated variant `n__k` of one (its origin is the
    // longest such user name); when variants of `n` exist, one row carries `n` itself - "the first
    // use of each user-written name is preserved". A named constraint that compiles to no row at
    // all (a tautology) leaves nothing to preserve.
    let origin_of = |r: &String| -> Option<&String> {
        if let Some(n) = source_names.iter().find(|n| *n == r) {
            return Some(n);
        }
        source_names
            .iter()
            .filter(|n| {
                r.strip_prefix(n.as_str())
                    .and_then(|rest| rest.strip_prefix("__"))
                    .map(|k| !k.is_empty() && k.chars().all(|c| c.is_ascii_digit()))
                    .unwrap_or(false)
            })
            .max_by_key(|n| n.len())
    };
    for r in &names {
        match origin_of(r) {
            None => {
                return Err((
                    "row-name-of-unknown-origin".into(),
                    format!("row name {r:?}; user names {:?}", source_names),
                ))
            }
            Some(n) => {
                if n != r && !names.contains(n) {
                    return Err((
                        "user-row-name-lost".into(),
                        format!("row {r:?} was derived from the user name {n:?}, but no row is named {n:?}; row names {:?}", names),
                    ));
                }
            }
        }
    }
    // declared variables keep a domain of the same kind inside their declaration
    for (name, d) in declared {
        let Some(dv) = m.domain().get(name) else { continue };
        let got = Dom::from_rooc(dv.get_type());
        let same_kind = matches!(
            (d, &got),
            (Dom::Bool, Dom::Bool) | (Dom::Int(..), Dom::Int(..)) | (Dom::Real(..), Dom::Real(..)) | (Dom::NonNeg(..), Dom::NonNeg(..))
        );
        if !same_kind {
            return Err((
                "declared-kind-changed".into(),
                format!("{name}: declared {d:?}, published {got:?}"),
            ));
        }
        let (dl, dh) = d.bounds_f64();
        let (gl, gh) = got.bounds_f64();
        if gl < dl || gh > dh || gl.is_nan() || gh.is_nan() {
            return Err((
                "published-domain-wider-than-declared".into(),
                format!("{name}: declared {d:?}, published {got:?}"),
            ));
        }
    }
    Ok(())
}
