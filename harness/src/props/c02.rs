//! C02 — linearization preserves objective values and optima (DESIGN.md §5.2).

use crate::gen::lin::{LinCase, Sense};
use crate::gen::model::{env_text, model_case, test_points, ModelCase, ModelParams, SObj};
use crate::oracle::rat::{big, Big};
use crate::props::lincheck::{compile, err_kind, extension, src_objective, Extension};
use crate::runner::{Outcome, Prop, Tier};
use num_traits::{Signed, ToPrimitive};
use proptest::prelude::*;

pub struct C02;

pub const PARAMS: ModelParams = ModelParams {
    max_vars: 3,
    max_cons: 3,
    depth: 3,
    inexact: false,
    unbounded_decl: false,
    objective: true,
};

impl Prop for C02 {
    type Case = ModelCase;
    fn id(&self) -> &'static str {
        "C02"
    }
    fn strategy(&self, _tier: Tier) -> BoxedStrategy<ModelCase> {
        prop_oneof![
            3 => model_case(PARAMS),
            4 => crate::gen::model::model_case_biased(PARAMS),
            2 => model_case(ModelParams { max_vars: 2, max_cons: 2, depth: 4, ..PARAMS }),
            1 => model_case(ModelParams { inexact: true, ..PARAMS }),
            2 => model_case(ModelParams { unbounded_decl: true, ..PARAMS }),
        ]
        .boxed()
    }
    fn budget(&self, tier: Tier) -> usize {
        match tier {
            Tier::Quick => 30_000,
            Tier::Thorough => 800_000,
        }
    }
    fn fixed_cases(&self, _tier: Tier) -> Vec<ModelCase> {
        directed_cases()
    }
    fn canon(&self, c: &ModelCase) -> String {
        serde_json::to_string(&c.text()).unwrap()
    }
    fn rule(&self) -> String {
        "models as in C01 with a min/max objective from the numeric sort (nested abs/min/max under mixed-sign scales, division by negative constants, logic values in arithmetic, sub-expressions shared with the constraints); at every source-feasible point of the test set (see C01) the best value of the linear objective incl. offset over all auxiliary extensions, in the model's direction, is computed exactly and must equal the source objective there (exact for dyadic data, 1e-6 relative otherwise); unbounded or missing extensions are violations (a missing extension is reported here as well as by C01). For all-discrete models the test set is the full domain, so equality of optimal value, argmin set and infeasible status follows and is checked explicitly. Non-trivial = objective contains a non-affine operator and >=3 feasible points with pairwise different objective values. Distinct = distinct model text.".into()
    }
    fn check(&self, case: &ModelCase) -> Outcome {
        check_objective(case, 40)
    }
}

pub fn directed_cases() -> Vec<ModelCase> {
    use crate::gen::lin::Dom;
    use crate::oracle::sem::SExp;
    let v = SExp::var;
    let n = SExp::Num;
    let mul = |c: f64, e: SExp| SExp::Mul(SExp::Num(c).b(), e.b());
    let mk = |vars: Vec<(&str, Dom)>, obj: SObj| ModelCase {
        vars: vars.into_iter().map(|(a, b)| (a.to_string(), b)).collect(),
        cons: vec![],
        obj,
        structural_logic: true,
        mark_all_used: false,
        point_seed: 3,
    };
    let x = || ("x0", Dom::Real(Some(-3.0), Some(2.0)));
    let y = || ("x1", Dom::Real(Some(-1.0), Some(4.0)));
    vec![
        mk(vec![x()], SObj::Max(SExp::Abs(v("x0").b()))),
        mk(vec![x()], SObj::Min(SExp::Abs(v("x0").b()))),
        mk(vec![x()], SObj::Min(mul(-2.0, SExp::Abs(v("x0").b())))),
        mk(vec![x(), y()], SObj::Max(SExp::Min(vec![v("x0"), v("x1")]))),
        mk(vec![x(), y()], SObj::Min(SExp::Min(vec![v("x0"), v("x1")]))),
        mk(vec![x(), y()], SObj::Max(SExp::Sub(n(1.0).b(), SExp::Max(vec![v("x0"), v("x1"), n(0.0)]).b()))),
        mk(vec![x(), y()], SObj::Min(SExp::Div(SExp::Max(vec![v("x0"), v("x1")]).b(), n(-2.0).b()))),
        // a dominated operand in front of two retained ones whose ranges differ (pruning must not
        // shift the bounds used for the selector rows)
        mk(
            vec![("x0", Dom::Real(Some(-10.0), Some(100.0))), ("x1", Dom::Real(Some(-100.0), Some(50.0)))],
            SObj::Max(SExp::Sub(SExp::Max(vec![n(-200.0), v("x0"), v("x1")]).b(), v("x1").b())),
        ),
        mk(
            vec![("x0", Dom::Real(Some(-10.0), Some(100.0))), ("x1", Dom::Real(Some(-100.0), Some(50.0)))],
            SObj::Min(SExp::Add(SExp::Min(vec![n(300.0), v("x1"), v("x0")]).b(), v("x0").b())),
        ),
        mk(
            vec![("x0", Dom::Real(Some(0.0), Some(3.0))), ("x1", Dom::Real(Some(-4.0), Some(2.0)))],
            SObj::Max(SExp::Sub(SExp::Max(vec![n(-6.0), v("x0"), v("x1")]).b(), v("x1").b())),
        ),
        mk(
            vec![("x0", Dom::Int(0, 3)), ("x1", Dom::Int(-4, 2))],
            SObj::Min(SExp::Add(SExp::Min(vec![n(9.0), v("x1"), v("x0")]).b(), v("x0").b())),
        ),
        // factors and divisors of tiny / huge magnitude still have a sign
        mk(vec![x()], SObj::Min(SExp::Mul(SExp::Abs(v("x0").b()).b(), n(-0.000001).b()))),
        mk(vec![x(), y()], SObj::Min(SExp::Div(SExp::Max(vec![v("x0"), v("x1")]).b(), n(-1000000.0).b()))),
        // a quotient with a constant term below a unary minus, abs, min, max
        mk(vec![x()], SObj::Min(SExp::Add(SExp::Neg(SExp::Div(SExp::Add(v("x0").b(), n(4.0).b()).b(), n(2.0).b()).b()).b(), n(1.0).b()))),
        mk(vec![x()], SObj::Min(SExp::Abs(SExp::Div(SExp::Sub(v("x0").b(), n(6.0).b()).b(), n(2.0).b()).b()))),
    ]
}

pub fn check_objective(case: &ModelCase, max_points: usize) -> Outcome {
    if matches!(case.obj, SObj::Satisfy) {
        return Outcome::Skip("satisfy objective".into());
    }
    let lin = match compile(case) {
        Ok(m) => m,
        Err(e) => return Outcome::Skip(format!("rejected:{}", err_kind(&e))),
    };
    if case.has_constant_row_decided_by_rounding() {
        return Outcome::Skip("a constant row is decided by f64 rounding".into());
    }
    let lc = LinCase::from_rooc(&lin);
    let want_max = matches!(case.obj, SObj::Max(_));
    if (lc.sense == Sense::Max) != want_max || lc.sense == Sense::Satisfy {
        return Outcome::fail(
            "direction-changed",
            format!("source objective {:?} but linear model optimises {:?}", case.obj, lc.sense),
        );
    }
    let pts = test_points(case, max_points);
    let mut fails: Vec<(String, String)> = vec![];
    let mut values: Vec<Big> = vec![];
    let mut best_src: Option<Big> = None;
    let mut best_lin: Option<Big> = None;
    let mut feasible = 0usize;
    for env in &pts {
        if case.src_feasible(env) != Some(true) {
            continue;
        }
        let Some(want) = src_objective(case, env) else { continue };
        let mut ext = extension(&lc, &case.vars, env, None, true);
        if matches!(ext, Extension::No) {
            ext = extension(&lc, &case.vars, env, Some(1e-9), true);
        }
        feasible += 1;
        if !values.contains(&want) {
            values.push(want.clone());
        }
        best_src = Some(match best_src {
            None => want.clone(),
            Some(b) => if (want_max && want > b) || (!want_max && want < b) { want.clone() } else { b },
        });
        let mut push = |sig: &str, detail: String| {
            if !fails.iter().any(|f| f.0 == sig) {
                fails.push((sig.to_string(), detail));
            }
        };
        match ext {
            // no extension at all: the rows that lower the objective cut the point off, so there is
            // no linear value to compare (also a C01 violation; reported here because the objective's
            // own selector rows are what C02's models add)
            Extension::No => push(
                "no-extension-at-source-feasible-point",
                format!(
                    "at source-feasible {{{}}} no assignment of the auxiliaries satisfies the linear model; source objective {}\n{}\nsource:\n{}",
                    env_text(env), want, lin, case.text()
                ),
            ),
            Extension::Unbounded => push(
                "objective-unbounded-over-auxiliaries",
                format!(
                    "at source-feasible {{{}}} the linear objective is unbounded over the auxiliaries; source value {}\n{}\nsource:\n{}",
                    env_text(env), want, lin, case.text()
                ),
            ),
            Extension::Yes(Some(got)) => {
                best_lin = Some(match best_lin {
                    None => got.clone(),
                    Some(b) => if (want_max && got > b) || (!want_max && got < b) { got.clone() } else { b },
                });
                let diff = (&got - &want).abs();
                let tol = big(1e-6) * (want.abs() + big(1.0));
                if diff > tol {
                    let dir = if (want_max && got > want) || (!want_max && got < want) { "too-good" } else { "too-bad" };
                    push(
                        &format!("objective-mismatch:{dir}"),
                        format!(
                            "at source-feasible {{{}}} best linear objective over auxiliaries = {} ({}), source objective = {} ({})\n{}\nsource:\n{}",
                            env_text(env), got, got.to_f64().unwrap_or(f64::NAN), want, want.to_f64().unwrap_or(f64::NAN), lin, case.text()
                        ),
                    );
                }
            }
            Extension::Yes(None) => {}
        }
    }
    let mut labels = vec![];
    let mut ops = std::collections::BTreeMap::new();
    if let SObj::Min(e) | SObj::Max(e) = &case.obj {
        e.count_ops(&mut ops);
    }
    for k in ops.keys() {
        labels.push(format!("obj-op:{k}"));
    }
    labels.push(if want_max { "max".into() } else { "min".into() });
    let obj_nonaffine = match &case.obj {
        SObj::Min(e) | SObj::Max(e) => e.has_nonaffine(),
        SObj::Satisfy => false,
    };
    let _ = (best_src, best_lin, feasible);
    Outcome::from_failures(fails, obj_nonaffine && values.len() >= 3, labels)
}
