//! C14 — every simplex step preserves equivalence, feasibility and monotonicity (§5.14).

use crate::gen::lin::{lin_case, Dom, LinCase, LinParams, LinRow, Sense, R};
use crate::oracle::rat::{big, solve_lp, Big, Problem, Rel, Row, Verdict};
use crate::runner::{Outcome, Prop, Tier};
use num_traits::{ToPrimitive, Zero};
use proptest::prelude::*;
use rooc::{SimplexError, StepAction, Tableau};

pub struct C14;

const PARAMS: LinParams = LinParams {
    max_vars: 4,
    max_rows: 5,
    coef_range: 4,
    quarters: false,
    allow_discrete: false,
    allow_satisfy: false,
    allow_offset: true,
    exotic_names: false,
    continuous_only: true,
};

fn nn(n: usize) -> Vec<(String, Dom)> {
    (0..n).map(|i| (format!("x{i}"), Dom::NonNeg(0.0, None))).collect()
}
fn row(coef: &[f64], rel: R, rhs: f64) -> LinRow {
    LinRow { name: String::new(), coef: coef.to_vec(), rel, rhs }
}

/// classical degenerate / cycling instances
fn classics() -> Vec<LinCase> {
    vec![
        // Beale's cycling example
        LinCase {
            vars: nn(4),
            rows: vec![
                row(&[0.25, -8.0, -1.0, 9.0], R::Le, 0.0),
                row(&[0.5, -12.0, -0.5, 3.0], R::Le, 0.0),
                row(&[0.0, 0.0, 1.0, 0.0], R::Le, 1.0),
            ],
            obj: vec![-0.75, 20.0, -0.5, 6.0],
            offset: 0.0,
            sense: Sense::Min,
        },
        // Kuhn's example
        LinCase {
            vars: nn(4),
            rows: vec![
                row(&[-2.0, -9.0, 1.0, 9.0], R::Le, 0.0),
                row(&[1.0 / 3.0, 1.0, -1.0 / 3.0, -2.0], R::Le, 0.0),
                row(&[2.0, 3.0, -1.0, -12.0], R::Le, 2.0),
            ],
            obj: vec![-2.0, -3.0, 1.0, 12.0],
            offset: 0.0,
            sense: Sense::Min,
        },
        // degenerate vertex with ties
        LinCase {
            vars: nn(2),
            rows: vec![row(&[1.0, 0.0], R::Le, 1.0), row(&[0.0, 1.0], R::Le, 1.0), row(&[1.0, 1.0], R::Le, 2.0), row(&[1.0, -1.0], R::Le, 0.0)],
            obj: vec![1.0, 1.0],
            offset: 0.0,
            sense: Sense::Max,
        },
        // two-phase start with redundant equality
        LinCase {
            vars: nn(3),
            rows: vec![row(&[1.0, 1.0, 1.0], R::Eq, 3.0), row(&[2.0, 2.0, 2.0], R::Eq, 6.0), row(&[1.0, -1.0, 0.0], R::Ge, 1.0)],
            obj: vec![1.0, 2.0, 3.0],
            offset: 1.0,
            sense: Sense::Min,
        },
        // unbounded
        LinCase { vars: nn(2), rows: vec![row(&[1.0, -1.0], R::Le, 1.0)], obj: vec![1.0, 1.0], offset: 0.0, sense: Sense::Max },
    ]
}

/// The three classical cycling instances (Beale, Kuhn, Chvatal) with `extra` cost-free variables
/// of their own: in front of (`front`) or behind the instance's columns, tied together by one row
/// of kind `kind` (0: their sum = 1, 1: their sum <= 1, 2: the first one <= 1, the others free of
/// rows). Dantzig's rule stalls on the instance until the anti-cycling rule takes over, and then
/// meets columns whose reduced cost is exactly zero.
fn embedded_cycling(which: usize, extra: usize, front: bool, kind: u8) -> LinCase {
    let mut base = match which % 3 {
        0 => classics().swap_remove(0),
        1 => classics().swap_remove(1),
        _ => LinCase {
            vars: nn(4),
            rows: vec![
                row(&[0.5, -5.5, -2.5, 9.0], R::Le, 0.0),
                row(&[0.5, -1.5, -0.5, 1.0], R::Le, 0.0),
                row(&[1.0, 0.0, 0.0, 0.0], R::Le, 1.0),
            ],
            obj: vec![10.0, -57.0, -9.0, -24.0],
            offset: 0.0,
            sense: Sense::Max,
        },
    };
    let n = base.n();
    let place = |old: &[f64], new: &[f64]| -> Vec<f64> {
        if front {
            new.iter().chain(old).cloned().collect()
        } else {
            old.iter().chain(new).cloned().collect()
        }
    };
    let zeros = vec![0.0; extra];
    for r in base.rows.iter_mut() {
        r.coef = place(&r.coef, &zeros);
    }
    base.obj = place(&base.obj, &zeros);
    let mut tie = vec![1.0; extra];
    if kind % 3 == 2 {
        for t in tie.iter_mut().skip(1) {
            *t = 0.0;
        }
    }
    let tie_row = row(&place(&vec![0.0; n], &tie), if kind % 3 == 0 { R::Eq } else { R::Le }, 1.0);
    if front {
        base.rows.insert(0, tie_row);
    } else {
        base.rows.push(tie_row);
    }
    base.vars = nn(n + extra);
    base
}

fn embedded_cycling_all() -> Vec<LinCase> {
    let mut v = vec![embedded_cycling(2, 0, false, 1)];
    for which in 0..3 {
        for extra in 1..=3 {
            for front in [true, false] {
                for kind in 0..3 {
                    v.push(embedded_cycling(which, extra, front, kind));
                }
            }
        }
    }
    v
}

struct Snap {
    a: Vec<Vec<f64>>,
    b: Vec<f64>,
    c: Vec<f64>,
    basis: Vec<usize>,
    value: f64,
}

fn snap(t: &Tableau) -> Snap {
    Snap { a: t.a_matrix().clone(), b: t.b_vec().clone(), c: t.c_vec().clone(), basis: t.in_basis().clone(), value: t.current_value() }
}

fn basic_solution(s: &Snap) -> Vec<f64> {
    let mut z = vec![0.0; s.c.len()];
    for (i, &j) in s.basis.iter().enumerate() {
        if j < z.len() {
            z[j] = s.b[i];
        }
    }
    z
}

fn dot(a: &[f64], z: &[f64]) -> f64 {
    a.iter().zip(z).map(|(x, y)| x * y).sum()
}

const TOL: f64 = 1e-7;

fn scale(v: &[f64]) -> f64 {
    1.0 + v.iter().fold(0.0f64, |m, x| m.max(x.abs()))
}

/// invariants of one tableau against the initial one
fn check_state(t0: &Snap, probes: &[Vec<f64>], prev_obj: f64, s: &Snap, step: usize) -> Result<(), (String, String)> {
    let n = s.c.len();
    let m = s.a.len();
    if s.b.len() != m || s.basis.len() != m || s.a.iter().any(|r| r.len() != n) {
        return Err(("tableau-shape".into(), format!("step {step}: {m} rows, basis {}, b {}", s.basis.len(), s.b.len())));
    }
    // (ii) basic columns are unit columns with zero reduced cost
    for (i, &j) in s.basis.iter().enumerate() {
        if j >= n {
            return Err(("basis-index-out-of-range".into(), format!("step {step}: basis {:?}", s.basis)));
        }
        for r in 0..m {
            let want = if r == i { 1.0 } else { 0.0 };
            if (s.a[r][j] - want).abs() > TOL * scale(&s.a[r]) {
                return Err(("basic-column-not-unit".into(), format!("step {step}: column {j} row {r} = {}", s.a[r][j])));
            }
        }
        if s.c[j].abs() > TOL * scale(&s.c) {
            return Err(("basic-reduced-cost-nonzero".into(), format!("step {step}: c[{j}] = {}", s.c[j])));
        }
    }
    // (iii) basic solution non-negative and satisfying the original equalities
    for (i, v) in s.b.iter().enumerate() {
        if *v < -TOL * scale(&s.b) {
            return Err(("negative-basic-value".into(), format!("step {step}: b[{i}] = {v}")));
        }
    }
    let z = basic_solution(s);
    for (r, row) in t0.a.iter().enumerate() {
        let lhs = dot(row, &z);
        if (lhs - t0.b[r]).abs() > 1e-6 * (scale(row) * scale(&z)) {
            return Err((
                "basic-solution-leaves-original-system".into(),
                format!("step {step}: original row {r} gives {lhs}, expected {}", t0.b[r]),
            ));
        }
    }
    // (i) equivalence: points spanning the solution set of the original system still satisfy this one
    for (k, p) in probes.iter().enumerate() {
        for (r, row) in s.a.iter().enumerate() {
            let lhs = dot(row, p);
            if (lhs - s.b[r]).abs() > 1e-6 * (scale(row) * scale(p) + s.b[r].abs()) {
                return Err((
                    "system-not-equivalent-to-initial".into(),
                    format!("step {step}: probe {k} satisfies the initial system but row {r} gives {lhs} != {}", s.b[r]),
                ));
            }
        }
    }
    // (iv) the objective never gets worse
    let obj = -s.value;
    if obj > prev_obj + 1e-7 * (1.0 + prev_obj.abs()) {
        return Err(("objective-increased".into(), format!("step {step}: {prev_obj} -> {obj}")));
    }
    // (v) current value is the initial objective function at the basic solution
    let want = -t0.value + dot(&t0.c, &z);
    if (obj - want).abs() > 1e-6 * (1.0 + want.abs() + scale(&t0.c) * scale(&z)) {
        return Err(("current-value-inconsistent".into(), format!("step {step}: -current_value = {obj}, c0.z - v0 = {want}")));
    }
    Ok(())
}

/// exact optimum of the canonical tableau: min c0.z - v0  s.t.  A0 z = b0, z >= 0
fn exact_optimum(t0: &Snap) -> Verdict {
    let n = t0.c.len();
    let mut p = Problem::new(n);
    for j in 0..n {
        p.lo[j] = Some(big(0.0));
        p.obj[j] = big(t0.c[j]);
    }
    p.obj_const = -big(t0.value);
    for (r, row) in t0.a.iter().enumerate() {
        p.rows.push(Row { coef: row.iter().map(|v| big(*v)).collect(), rel: Rel::Eq, rhs: big(t0.b[r]) });
    }
    solve_lp(&p)
}

impl Prop for C14 {
    type Case = LinCase;
    fn id(&self) -> &'static str {
        "C14"
    }
    fn strategy(&self, _tier: Tier) -> BoxedStrategy<LinCase> {
        prop_oneof![
            5 => lin_case(PARAMS),
            // degeneracy: right-hand sides forced to zero / ties
            2 => lin_case(PARAMS).prop_map(|mut c| {
                for (i, r) in c.rows.iter_mut().enumerate() {
                    if i % 2 == 0 {
                        r.rhs = 0.0;
                    }
                }
                c
            }),
            2 => lin_case(LinParams { max_vars: 3, max_rows: 5, ..PARAMS }).prop_map(|mut c| {
                for v in c.vars.iter_mut() {
                    v.1 = Dom::NonNeg(0.0, None);
                }
                c
            }),
            // fully degenerate: every right-hand side zero, only <= rows over non-negative variables
            // (a slack basis at a vertex where every ratio test ties): the population in which a
            // wrong tie-break cycles
            3 => lin_case(LinParams { max_vars: 6, max_rows: 4, ..PARAMS }).prop_map(|mut c| {
                for v in c.vars.iter_mut() {
                    v.1 = Dom::NonNeg(0.0, None);
                }
                for r in c.rows.iter_mut() {
                    r.rhs = 0.0;
                    r.rel = R::Le;
                }
                c
            }),
            // coefficients of very different magnitude in one column (a big-M row next to unit rows):
            // an elimination factor below any fixed tolerance is still an elimination. Factors are powers of two,
            // so that scaling is exact and no two rows become parallel up to a rounding error
            2 => (lin_case(PARAMS), proptest::collection::vec((0usize..8, prop_oneof![Just(131072.0), Just(1048576.0), Just(0.00000762939453125), Just(65536.0), Just(0.0000019073486328125)]), 1..=3)).prop_map(|(mut c, marks)| {
                let n = c.n();
                for (k, f) in marks {
                    if c.rows.is_empty() || n == 0 {
                        break;
                    }
                    let i = k % c.rows.len();
                    let j = (k / 2) % n;
                    let base = if c.rows[i].coef[j] == 0.0 { 1.0 } else { c.rows[i].coef[j] };
                    c.rows[i].coef[j] = base * f;
                    if f > 1.0 {
                        c.rows[i].rhs *= f;
                    }
                }
                c
            }),
        ]
        .boxed()
    }
    fn budget(&self, tier: Tier) -> usize {
        match tier {
            Tier::Quick => 150_000,
            Tier::Thorough => 6_000_000,
        }
    }
    fn fixed_cases(&self, _tier: Tier) -> Vec<LinCase> {
        let mut v = classics();
        v.extend(embedded_cycling_all());
        v
    }
    fn canon(&self, c: &LinCase) -> String {
        serde_json::to_string(&c.pretty()).unwrap()
    }
    fn case_timeout_s(&self) -> u64 {
        60
    }
    fn hang_is_violation(&self) -> bool {
        true
    }
    fn rule(&self) -> String {
        "small continuous models (<=4 variables of every continuous kind, <=5 rows, integer data, zero right-hand sides forcing degenerate vertices and ratio-test ties, redundant and duplicated rows, equalities forcing two-phase starts; a fully degenerate class with every right-hand side zero; a class with coefficients of very different magnitude in one column) plus Beale's, Kuhn's and Chvatal's cycling instances, alone and each embedded among 1-3 cost-free variables of their own (in front or behind, tied by an equality, an inequality or a single bound: zero reduced costs next to the stalling columns), taken through into_standard_form().into_tableau(); the canonical tableau is then stepped with Tableau::step(&[]) (up to 300 steps) and, on a clone, solved with solve_step_by_step(1000). After every step: the system is equivalent to the initial one (a spanning set of solutions of the initial system still satisfies it, basis columns are unit columns), reduced costs of basic columns are zero, the basic solution is non-negative and satisfies the initial equalities, the objective did not increase, current_value is the initial objective at the basic solution. At the end: Finished => the objective equals the exact optimum of the initial canonical system, Unbounded => the exact oracle says unbounded, solve_step_by_step agrees and stays within its limit; into_tableau's infeasible verdict is checked against the exact oracle. Non-trivial = >=3 pivots, a degenerate pivot (ratio 0), or a two-phase start. Distinct = distinct model text.".into()
    }
    fn check(&self, case: &LinCase) -> Outcome {
        // recorded finding: the tableau simplex compares with an absolute tolerance of 1e-5, so a
        // model whose numbers span many orders of magnitude gets entries that are "zero" for it
        let class = if badly_scaled(case) { ":badly-scaled-model" } else { "" };
        match check_inner(case) {
            Outcome::Fail { signature, detail } => Outcome::Fail { signature: format!("{signature}{class}"), detail },
            Outcome::Multi(v) => Outcome::Multi(v.into_iter().map(|(s, d)| (format!("{s}{class}"), d)).collect()),
            other => other,
        }
    }
}

/// largest over smallest non-zero magnitude among coefficients, right-hand sides and objective >= 1e4
fn badly_scaled(case: &LinCase) -> bool {
    let mags: Vec<f64> = case
        .rows
        .iter()
        .flat_map(|r| r.coef.iter().cloned().chain(std::iter::once(r.rhs)))
        .chain(case.obj.iter().cloned())
        // declared bounds become rows of the standard form
        .chain(case.vars.iter().flat_map(|v| {
            let (lo, hi) = v.1.bounds_f64();
            [lo, hi].into_iter().filter(|b| b.is_finite())
        }))
        .chain(std::iter::once(1.0))
        .map(f64::abs)
        .filter(|v| *v != 0.0)
        .collect();
    let (lo, hi) = mags.iter().fold((f64::INFINITY, 0.0f64), |(l, h), v| (l.min(*v), h.max(*v)));
    hi / lo >= 1e4
}

fn check_inner(case: &LinCase) -> Outcome {
    {
        if case.sense == Sense::Satisfy || !case.is_continuous() {
            return Outcome::Skip("not a continuous min/max model".into());
        }
        let std = match case.to_rooc().into_standard_form() {
            Ok(s) => s,
            Err(e) => return Outcome::fail("standard-form-rejected", e.to_string()),
        };
        let needs_phase1 = !crate::props::c13::standardize(case).map(|s| {
            // a slack basis exists iff every row has a slack with +1 (all rows <=) - approximate label
            s.rows.iter().all(|(c, _)| c.iter().any(|v| *v == 1.0))
        }).unwrap_or(true);
        let exact_original = solve_lp(&case.to_problem());
        let mut tableau = match std.into_tableau() {
            Ok(t) => t,
            Err(e) => {
                let msg = e.to_string();
                return if msg.starts_with("Infesible") {
                    if matches!(exact_original, Verdict::Infeasible) {
                        Outcome::Pass { nontrivial: true, labels: vec!["phase1-infeasible".into()] }
                    } else {
                        Outcome::fail("phase1-says-infeasible-but-feasible", format!("{msg}\n{}", case.pretty()))
                    }
                } else {
                    Outcome::fail("into-tableau-error", format!("{msg}\n{}", case.pretty()))
                };
            }
        };
        if matches!(exact_original, Verdict::Infeasible) {
            return Outcome::fail("canonical-tableau-for-infeasible-model", case.pretty());
        }
        let t0 = snap(&tableau);
        // probes: basic solution of T0 and one point along every non-basic direction
        let z0 = basic_solution(&t0);
        let mut probes = vec![z0.clone()];
        for j in 0..t0.c.len() {
            if t0.basis.contains(&j) {
                continue;
            }
            let mut p = z0.clone();
            p[j] += 1.0;
            for (i, &bj) in t0.basis.iter().enumerate() {
                p[bj] -= t0.a[i][j];
            }
            probes.push(p);
        }
        let ctx = |s: String| format!("{s}\n{}", case.pretty());
        if let Err((sig, d)) = check_state(&t0, &probes, f64::INFINITY, &t0, 0) {
            return Outcome::fail(format!("initial:{sig}"), ctx(d));
        }
        // The stop verdicts are judged against the exact optimum of the *original* model in the
        // user's frame: the canonical tableau itself carries f64 noise from phase 1 (reduced costs of
        // -5e-17), on which an exact solver is meaningless.
        let exact = exact_original.clone();
        let flip = if tableau.flip_result() { -1.0 } else { 1.0 };
        let offset = tableau.value_offset();
        let user = |min_frame_objective: f64| min_frame_objective * flip + offset;
        let mut by_steps = tableau.clone();
        let mut prev = -t0.value;
        let mut pivots = 0usize;
        let mut degenerate = false;
        let end;
        loop {
            if pivots > 300 {
                // `step` applies the plain Dantzig rule on every call; anti-cycling (the stall
                // detection with Bland's rule) lives in the drivers, which are checked below
                end = "StepLoopCut";
                break;
            }
            match tableau.step(&[]) {
                Ok(StepAction::Pivot { ratio, .. }) => {
                    pivots += 1;
                    if ratio.abs() < 1e-12 {
                        degenerate = true;
                    }
                    let s = snap(&tableau);
                    if let Err((sig, d)) = check_state(&t0, &probes, prev, &s, pivots) {
                        return Outcome::fail(sig, ctx(d));
                    }
                    prev = -s.value;
                }
                Ok(StepAction::Finished) => {
                    end = "Finished";
                    break;
                }
                Err(SimplexError::Unbounded) => {
                    end = "Unbounded";
                    break;
                }
                Err(e) => return Outcome::fail(format!("step-error:{e}"), ctx(String::new())),
            }
        }
        let mut fails: Vec<(String, String)> = vec![];
        match (end, &exact) {
            ("StepLoopCut", _) => {}
            ("Finished", Verdict::Optimal { value, .. }) => {
                let v = value.to_f64().unwrap_or(f64::NAN);
                if (user(prev) - v).abs() > 1e-6 * (1.0 + v.abs()) {
                    fails.push(("finished-but-not-optimal".into(), ctx(format!("objective {} (user frame), exact optimum {v}", user(prev)))));
                }
            }
            ("Unbounded", Verdict::Unbounded) => {}
            (e, x) => fails.push((
                format!("stop-verdict:{e}-vs-{}", crate::props::c05::verdict_name(x)),
                ctx(format!("stepping ended with {e}, exact oracle: {}", crate::props::c05::verdict_name(x))),
            )),
        }
        // the step-by-step driver (with its stall detection and Bland fallback)
        match by_steps.solve_step_by_step(1000) {
            Ok(r) => {
                let got = user(-r.result().tableau().current_value());
                match &exact {
                    Verdict::Optimal { value, .. } => {
                        let v = value.to_f64().unwrap_or(f64::NAN);
                        if (got - v).abs() > 1e-6 * (1.0 + v.abs()) || (r.result().optimal_value() - v).abs() > 1e-6 * (1.0 + v.abs()) {
                            fails.push(("solve-step-by-step-not-optimal".into(), ctx(format!("{got} vs exact {v}"))));
                        }
                    }
                    x => fails.push((format!("solve-step-by-step-finished-vs-{}", crate::props::c05::verdict_name(x)), ctx(String::new()))),
                }
            }
            Err(SimplexError::Unbounded) => {
                if !matches!(exact, Verdict::Unbounded) {
                    fails.push(("solve-step-by-step-unbounded-but-bounded".into(), ctx(String::new())));
                }
            }
            Err(SimplexError::IterationLimitReached) => fails.push(("solve-step-by-step-hit-its-limit".into(), ctx(String::new()))),
            Err(e) => fails.push((format!("solve-step-by-step-error:{e}"), ctx(String::new()))),
        }
        let _: Option<Big> = None;
        let _ = Zero::is_zero(&big(0.0));
        let mut labels = vec![format!("end:{end}"), format!("pivots:{}", pivots.min(9))];
        if degenerate {
            labels.push("degenerate-pivot".into());
        }
        if needs_phase1 {
            labels.push("two-phase".into());
        }
        Outcome::from_failures(fails, pivots >= 3 || degenerate || needs_phase1, labels)
    }
}
