//! C12 — compiled output is itself a valid program with the same meaning (DESIGN.md §5.12).

use crate::gen::lin::{Dom, LinCase, Sense, R};
use crate::gen::model::{model_case, ModelCase, ModelParams, SCons, SObj};
use crate::oracle::sem::{Cmp, SExp};
use crate::props::lincheck::err_kind;
use crate::runner::{Outcome, Prop, Tier};
use indexmap::IndexMap;
use proptest::prelude::*;
use rooc::{LinearModel, Linearizer, RoocParser};

pub struct C12;

const PARAMS: ModelParams = ModelParams { max_vars: 4, max_cons: 4, depth: 3, inexact: true, unbounded_decl: true, objective: true };

/// affine models whose coefficients span 1e-9 .. 1e9 in both signs, with offsets
fn magnitude_model() -> BoxedStrategy<ModelCase> {
    let coef = (prop_oneof![Just(1.0), Just(2.5), Just(3.0), Just(7.0)], -9i32..=9, any::<bool>())
        .prop_map(|(d, k, neg)| { let v = d * 10f64.powi(k); if neg { -v } else { v } });
    let dom = prop_oneof![
        Just(Dom::Real(Some(-10.0), Some(10.0))),
        Just(Dom::NonNeg(0.0, Some(1e6))),
        Just(Dom::Real(None, None)),
        Just(Dom::Int(-5, 5)),
        Just(Dom::Bool),
        Just(Dom::Real(Some(-1e-7), Some(2.5e8))),
    ];
    (
        proptest::collection::vec(dom, 1..=4),
        proptest::collection::vec((proptest::collection::vec(coef.clone(), 4), 0u8..3, coef.clone(), 0u8..3), 1..=4),
        proptest::collection::vec(coef.clone(), 4),
        coef,
        0u8..3,
    )
        .prop_map(|(doms, rows, obj, offset, sense)| {
            let vars: Vec<(String, Dom)> = doms.into_iter().enumerate().map(|(i, d)| (format!("x{i}"), d)).collect();
            let n = vars.len();
            let lin = |cs: &[f64]| -> SExp {
                let mut it = (0..n).map(|i| SExp::Mul(SExp::Num(cs[i]).b(), SExp::var(&vars[i].0).b()));
                let first = it.next().unwrap();
                it.fold(first, |a, t| SExp::Add(a.b(), t.b()))
            };
            let cons = rows
                .iter()
                .enumerate()
                .map(|(i, (cs, rel, rhs, naming))| SCons {
                    name: match naming { 0 => String::new(), 1 => format!("r{i}"), _ => "dup".into() },
                    lhs: lin(cs),
                    rel: match rel { 0 => Cmp::Le, 1 => Cmp::Ge, _ => Cmp::Eq },
                    rhs: SExp::Num(*rhs),
                    bare: false,
                })
                .collect();
            let o = SExp::Add(lin(&obj).b(), SExp::Num(offset).b());
            ModelCase {
                vars,
                cons,
                obj: match sense { 0 => SObj::Min(o), 1 => SObj::Max(o), _ => SObj::Satisfy },
                structural_logic: true,
                mark_all_used: false,
                point_seed: 0,
            }
        })
        .boxed()
}

fn pipeline(text: &str) -> Result<LinearModel, (String, String)> {
    let p = RoocParser::new(text.to_string());
    let fns = IndexMap::new();
    if let Err(e) = p.parse() {
        return Err(("does-not-parse".into(), e.to_string_from_source(text)));
    }
    if let Err(e) = p.type_check(&vec![], &fns) {
        return Err(("fails-type-check".into(), e));
    }
    let model = p.parse_and_transform(vec![], &fns).map_err(|e| ("fails-transform".to_string(), e))?;
    Linearizer::linearize(model).map_err(|e| (format!("fails-linearize:{}", err_kind(&e)), e.to_string()))
}

fn close(a: f64, b: f64) -> bool {
    a == b || (a - b).abs() <= 1e-9 * (a.abs().max(b.abs()))
}

fn dom_close(a: &Dom, b: &Dom) -> bool {
    let (al, ah) = a.bounds_f64();
    let (bl, bh) = b.bounds_f64();
    std::mem::discriminant(a) == std::mem::discriminant(b) && close(al, bl) && close(ah, bh)
}

/// Canonical form used for "the same linear model": declared-but-unused variables (all-zero
/// column, zero objective coefficient) are dropped - the text front-end drops them, the builder
/// keeps them -, constant rows that hold trivially (`0 <= 0`) are dropped - the compiler drops a
/// literal tautology but keeps a row whose variables cancelled -, and identical rows are merged.
/// A constant row that does not hold (`0 = 1`) is kept: it is the model's infeasibility.
fn canonical(c: &LinCase) -> LinCase {
    canonical_opt(c, false)
}

/// `boolean_rows`: additionally normalise rows over a single Boolean variable to what they say
/// about it (nothing / `b = 0` / `b = 1` / contradiction).
fn canonical_opt(c: &LinCase, boolean_rows: bool) -> LinCase {
    let keep: Vec<usize> = (0..c.n())
        .filter(|&j| c.obj[j] != 0.0 || c.rows.iter().any(|r| r.coef[j] != 0.0))
        .collect();
    let mut rows: Vec<crate::gen::lin::LinRow> = vec![];
    for r in &c.rows {
        let coef: Vec<f64> = keep.iter().map(|&j| r.coef[j]).collect();
        let constant = coef.iter().all(|v| *v == 0.0);
        if constant && r.rel.holds(0.0, r.rhs, 0.0) {
            continue;
        }
        // every violated constant row denotes the same thing; the compiler writes it `0 = 1`
        let (mut rel, mut rhs) = if constant { (R::Eq, 1.0) } else { (r.rel, r.rhs + 0.0) };
        let mut coef = coef;
        if boolean_rows && !constant {
            let nz: Vec<usize> = (0..coef.len()).filter(|&k| coef[k] != 0.0).collect();
            if nz.len() == 1 && c.vars[keep[nz[0]]].1 == Dom::Bool {
                let a = coef[nz[0]];
                let ok0 = r.rel.holds(0.0, r.rhs, 0.0);
                let ok1 = r.rel.holds(a, r.rhs, 0.0);
                match (ok0, ok1) {
                    (true, true) => continue,
                    (true, false) => {
                        coef[nz[0]] = 1.0;
                        rel = R::Eq;
                        rhs = 0.0;
                    }
                    (false, true) => {
                        coef[nz[0]] = 1.0;
                        rel = R::Eq;
                        rhs = 1.0;
                    }
                    (false, false) => {
                        coef[nz[0]] = 0.0;
                        rel = R::Eq;
                        rhs = 1.0;
                    }
                }
            }
        }
        let row = crate::gen::lin::LinRow { name: r.name.clone(), coef, rel, rhs };
        if !rows.iter().any(|x| x.name == row.name && x.rel == row.rel && x.rhs == row.rhs && x.coef == row.coef) {
            rows.push(row);
        }
    }
    LinCase {
        vars: keep.iter().map(|&j| c.vars[j].clone()).collect(),
        rows,
        obj: keep.iter().map(|&j| c.obj[j]).collect(),
        offset: c.offset,
        sense: c.sense,
    }
}

/// same variables (by name), domains, objective, offset and the same multiset of rows
fn same_linear(a: &LinCase, b: &LinCase, ignore_row_names: bool) -> Result<(), String> {
    same_linear_opt(a, b, ignore_row_names, false)
}

fn same_linear_opt(a: &LinCase, b: &LinCase, ignore_row_names: bool, ignore_domains: bool) -> Result<(), String> {
    same_linear_full(a, b, ignore_row_names, ignore_domains, false)
}

fn same_linear_full(a: &LinCase, b: &LinCase, ignore_row_names: bool, ignore_domains: bool, boolean_rows: bool) -> Result<(), String> {
    let (a, b) = (&canonical_opt(a, boolean_rows), &canonical_opt(b, boolean_rows));
    let mut an: Vec<&String> = a.vars.iter().map(|v| &v.0).collect();
    let mut bn: Vec<&String> = b.vars.iter().map(|v| &v.0).collect();
    an.sort();
    bn.sort();
    if an != bn {
        return Err(format!("variables {:?} vs {:?}", an, bn));
    }
    let idx = |c: &LinCase, name: &String| c.vars.iter().position(|v| &v.0 == name).unwrap();
    for name in &an {
        let (da, db) = (&a.vars[idx(a, name)].1, &b.vars[idx(b, name)].1);
        if !dom_close(da, db) && !ignore_domains {
            // is the recompiled domain merely tighter (a subset)? Both are then sound ranges and
            // the difference is the analysis not being at its own fixpoint.
            let (al, ah) = da.bounds_f64();
            let (bl, bh) = db.bounds_f64();
            let subset = std::mem::discriminant(da) == std::mem::discriminant(db) && bl >= al && bh <= ah;
            return Err(format!("domain of {name}{}: {da:?} vs {db:?}", if subset { " (tighter after recompile)" } else { "" }));
        }
        let (ca, cb) = (a.obj[idx(a, name)], b.obj[idx(b, name)]);
        if !close(ca, cb) {
            return Err(format!("objective coefficient of {name}: {ca} vs {cb}"));
        }
    }
    if a.sense != b.sense {
        return Err(format!("sense {:?} vs {:?}", a.sense, b.sense));
    }
    if a.sense != Sense::Satisfy && !close(a.offset, b.offset) {
        return Err(format!("offset {} vs {}", a.offset, b.offset));
    }
    if a.rows.len() != b.rows.len() {
        return Err(format!("{} rows vs {} rows", a.rows.len(), b.rows.len()));
    }
    let mut used = vec![false; b.rows.len()];
    for ra in &a.rows {
        let found = b.rows.iter().enumerate().position(|(j, rb)| {
            !used[j]
                && ra.rel == rb.rel
                && close(ra.rhs, rb.rhs)
                && (ignore_row_names || ra.name == rb.name)
                && an.iter().all(|name| close(ra.coef[idx(a, name)], rb.coef[idx(b, name)]))
        });
        match found {
            Some(j) => used[j] = true,
            None => return Err(format!("row {:?} {:?} {:?} {} has no counterpart", ra.name, ra.coef, ra.rel, ra.rhs)),
        }
    }
    let _ = R::Le;
    Ok(())
}

/// some row mixes coefficients / right-hand side whose magnitudes differ by >= 1e4
fn ill_conditioned(c: &LinCase) -> bool {
    c.rows.iter().any(|r| {
        let mags: Vec<f64> = r.coef.iter().chain(std::iter::once(&r.rhs)).map(|v| v.abs()).filter(|v| *v > 0.0).collect();
        let (lo, hi) = mags.iter().fold((f64::INFINITY, 0.0f64), |(l, h), v| (l.min(*v), h.max(*v)));
        hi / lo >= 1e4
    })
}

/// Exact semantic equivalence of two linear models over the same variables: same objective and
/// every row and bound of each is implied by the other (decided with the exact MILP oracle).
/// Used only to *classify* a syntactic difference as harmless, never to accept one.
thread_local! {
    /// set when an equivalence question was too large for the exact oracle (the case is then skipped)
    static UNDECIDED: std::cell::Cell<bool> = const { std::cell::Cell::new(false) };
}

fn equivalent(a: &LinCase, b: &LinCase) -> bool {
    use crate::oracle::rat::{big, solve_milp, Big, Verdict};
    // one exact MILP per row and bound of either model: exponential in the discrete variables
    let discrete = |c: &LinCase| c.vars.iter().filter(|v| v.1.is_discrete()).count();
    if discrete(a).max(discrete(b)) > 9 || a.rows.len().max(b.rows.len()) > 30 {
        UNDECIDED.with(|u| u.set(true));
        return false;
    }
    let (mut a, mut b) = (canonical(a), canonical(b));
    // a variable that one side no longer mentions is unconstrained there: add it with the domain
    // the other side declares, so that the other side's rows on it must follow from that domain
    for (x, y) in [(0, 1), (1, 0)] {
        let (src, dst) = if x == 0 { (a.clone(), &mut b) } else { (b.clone(), &mut a) };
        let _ = y;
        for (name, dom) in &src.vars {
            if !dst.vars.iter().any(|v| &v.0 == name) {
                dst.vars.push((name.clone(), dom.clone()));
                dst.obj.push(0.0);
                for r in dst.rows.iter_mut() {
                    r.coef.push(0.0);
                }
            }
        }
    }
    let mut an: Vec<&String> = a.vars.iter().map(|v| &v.0).collect();
    let mut bn: Vec<&String> = b.vars.iter().map(|v| &v.0).collect();
    an.sort();
    bn.sort();
    if an != bn || a.sense != b.sense || (a.sense != Sense::Satisfy && !close(a.offset, b.offset)) {
        return false;
    }
    let pos = |c: &LinCase, name: &String| c.vars.iter().position(|v| &v.0 == name).unwrap();
    for name in &an {
        if a.sense != Sense::Satisfy && !close(a.obj[pos(&a, name)], b.obj[pos(&b, name)]) {
            return false;
        }
        if a.vars[pos(&a, name)].1.is_discrete() != b.vars[pos(&b, name)].1.is_discrete() {
            return false;
        }
    }
    // is `coef . x rel rhs` (in c's variable order) implied by model m?
    let implied = |m: &LinCase, c: &LinCase, coef: &[f64], rel: R, rhs: f64| -> bool {
        let mut p = m.to_problem();
        if m.vars.iter().any(|v| v.1.is_degenerate()) {
            return true;
        }
        p.obj = vec![big(0.0); p.n];
        p.obj_const = big(0.0);
        for (j, (name, _)) in c.vars.iter().enumerate() {
            p.obj[m.vars.iter().position(|v| &v.0 == name).unwrap()] = big(coef[j]);
        }
        let tol = |v: &Big| big(1e-9) * (v.clone() + big(1.0)).max(big(1.0));
        let mut ok = true;
        if rel != R::Ge {
            p.maximize = true;
            ok &= match solve_milp(&p) {
                Verdict::Infeasible => true,
                Verdict::Unbounded => false,
                Verdict::Optimal { value, .. } => value <= big(rhs) + tol(&big(rhs.abs())),
            };
        }
        if rel != R::Le {
            p.maximize = false;
            ok &= match solve_milp(&p) {
                Verdict::Infeasible => true,
                Verdict::Unbounded => false,
                Verdict::Optimal { value, .. } => value >= big(rhs) - tol(&big(rhs.abs())),
            };
        }
        ok
    };
    for (m, c) in [(&a, &b), (&b, &a)] {
        if c.vars.iter().any(|v| v.1.is_degenerate()) {
            // c is infeasible by an empty domain: m must be infeasible too
            if !matches!(solve_milp(&m.to_problem()), Verdict::Infeasible) {
                return false;
            }
            continue;
        }
        for r in &c.rows {
            if !implied(m, c, &r.coef, r.rel, r.rhs) {
                return false;
            }
        }
        for (j, (_, d)) in c.vars.iter().enumerate() {
            let (lo, hi) = d.bounds_f64();
            let mut unit = vec![0.0; c.n()];
            unit[j] = 1.0;
            if lo.is_finite() && !implied(m, c, &unit, R::Ge, lo) {
                return false;
            }
            if hi.is_finite() && !implied(m, c, &unit, R::Le, hi) {
                return false;
            }
        }
    }
    true
}

impl Prop for C12 {
    type Case = ModelCase;
    fn id(&self) -> &'static str {
        "C12"
    }
    fn strategy(&self, _tier: Tier) -> BoxedStrategy<ModelCase> {
        // logic operators as the structural variants: what the text front-end and the builder produce
        prop_oneof![5 => model_case(PARAMS), 3 => magnitude_model()]
            .prop_map(|mut c| {
                c.structural_logic = true;
                // text-front-end models: the language drops declared-but-unused variables by design,
                // so a builder model that keeps them cannot round-trip through its text
                c.mark_all_used = false;
                c
            })
            .boxed()
    }
    fn budget(&self, tier: Tier) -> usize {
        match tier {
            Tier::Quick => 8_000,
            Tier::Thorough => 400_000,
        }
    }
    fn fixed_cases(&self, _tier: Tier) -> Vec<ModelCase> {
        crate::props::c01::directed_cases()
    }
    fn canon(&self, c: &ModelCase) -> String {
        serde_json::to_string(&c.text()).unwrap()
    }
    fn rule(&self) -> String {
        "compiled models from the C01/C02 generator (non-affine operators, logic under arithmetic, named/unnamed/duplicate-named rows, tightened and infinite domains, all three objective kinds) plus affine models whose coefficients, right-hand sides and offsets span 1e-9..1e9 in both signs. (1) Model::to_string() must parse, type-check, transform and linearize to the same linear model as the original (variables, domains, objective, offset, rows as a multiset); (2) LinearModel::to_string() must do the same and rendering the re-compiled model must give the same text byte for byte. Non-trivial = model has a non-affine construct, or a coefficient outside [0.01, 100], or a negative constant. Distinct = distinct model text.".into()
    }
    fn check(&self, case: &ModelCase) -> Outcome {
        UNDECIDED.with(|u| u.set(false));
        let model = case.to_rooc();
        let t1 = model.to_string();
        let lin = match Linearizer::linearize(model) {
            Ok(l) => l,
            Err(e) => return Outcome::Skip(format!("rejected:{}", err_kind(&e))),
        };
        let lc = LinCase::from_rooc(&lin);
        let mut fails: Vec<(String, String)> = vec![];
        // (1) the model rendering
        match pipeline(&t1) {
            Err((sig, e)) => fails.push((format!("model-text:{sig}"), format!("model text:\n{t1}\n{e}\nsource:\n{}", case.text()))),
            Ok(l1) => {
                if let Err(d) = same_linear(&lc, &LinCase::from_rooc(&l1), false) {
                    fails.push(("model-text:recompiles-to-different-linear-model".into(), format!("{d}\nmodel text:\n{t1}\noriginal linear model:\n{lin}\nrecompiled:\n{l1}")));
                }
            }
        }
        // (2) the linear-model rendering
        let t2 = lin.to_string();
        // instance classes of the recorded findings (see known_findings.json)
        let no_rows = lc.rows.is_empty();
        let has_dead_column = (0..lc.n()).any(|j| lc.obj[j] == 0.0 && lc.rows.iter().all(|r| r.coef[j] == 0.0));
        let frozen = {
            let m = case.to_rooc();
            rooc::verif_hooks::analyze_bounds(m.domain(), m.constraints()).detected_infeasible()
        };
        match pipeline(&t2) {
            Err((sig, e)) => {
                let class = if no_rows && sig == "does-not-parse" { ":empty-constraint-section" } else { "" };
                fails.push((format!("linear-text:{sig}{class}"), format!("linear model text:\n{t2}\n{e}")))
            }
            Ok(l2) => {
                if let Err(d) = same_linear(&lc, &LinCase::from_rooc(&l2), false) {
                    let _ = frozen;
                    let l2c = LinCase::from_rooc(&l2);
                    // cheap exact rewrite first (rows over one Boolean normalised to what they say),
                    // the MILP oracle for everything else (domains, added implied rows)
                    let class = if same_linear_full(&lc, &l2c, false, false, true).is_ok() || equivalent(&lc, &l2c) {
                        ":equivalent-model"
                    } else if d.contains("(tighter after recompile)")
                        && same_linear_full(&lc, &l2c, false, true, true).is_ok()
                        && ill_conditioned(&lc)
                    {
                        // rows and objective identical, only domains tighter, and not implied: the
                        // propagation lost precision (cancellation amplified by a tiny coefficient)
                        ":domain-tighter-not-implied:ill-conditioned-row"
                    } else {
                        ""
                    };
                    fails.push((format!("linear-text:recompiles-to-different-linear-model{class}"), format!("{d}\nlinear model text:\n{t2}\nrecompiled:\n{l2}")));
                } else if l2.to_string() != t2 {
                    let t3 = l2.to_string();
                    // is the only difference a declaration of a variable without any coefficient?
                    let l2c = LinCase::from_rooc(&l2);
                    let _ = has_dead_column;
                    // the second text must at least denote the same model as the first
                    let same = |x: &LinCase, y: &LinCase| same_linear_full(x, y, false, false, true).is_ok() || equivalent(x, y);
                    // the recorded finding is about models that are equivalent but written with other
                    // rows or domains; two models that are the same number for number and still print
                    // differently (a bound -0 next to 0) are a rendering defect of their own
                    let literally_same = lc.vars == l2c.vars
                        && lc.obj == l2c.obj
                        && lc.offset == l2c.offset
                        && lc.rows.len() == l2c.rows.len()
                        && lc.rows.iter().zip(&l2c.rows).all(|(x, y)| x.name == y.name && x.coef == y.coef && x.rhs == y.rhs && format!("{:?}", x.rel) == format!("{:?}", y.rel));
                    let class = match pipeline(&t3) {
                        _ if literally_same => ":same-numbers-other-text",
                        Ok(l3) if same(&l2c, &LinCase::from_rooc(&l3)) && same(&lc, &l2c) => ":equivalent-model",
                        _ => "",
                    };
                    fails.push((format!("linear-text:render-compile-render-differs{class}"), format!("first:\n{t2}\nsecond:\n{t3}")));
                }
            }
        }
        let mag = lc.rows.iter().flat_map(|r| r.coef.iter()).chain(lc.obj.iter()).any(|c| *c != 0.0 && (c.abs() < 0.01 || c.abs() > 100.0 || *c < 0.0));
        if !fails.is_empty() && UNDECIDED.with(|u| u.get()) {
            // a difference was seen but whether it is the recorded "equivalent model" finding needs
            // an exact equivalence proof that is too large: inconclusive for this case, counted
            return Outcome::Skip("difference not classified: equivalence too large for the exact oracle".into());
        }
        Outcome::from_failures(fails, case.has_nonaffine() || mag, vec![])
    }
}
