//! C04 — returned solutions are feasible and self-consistent (DESIGN.md §5.4).

use crate::gen::lin::{lin_case, LinCase, LinParams};
use crate::props::solvers::{check_solution, solve, Ans, ALL, LIMITED};
use crate::runner::{Outcome, Prop, Tier};
use proptest::prelude::*;

pub struct C04;

pub const PARAMS: LinParams = LinParams {
    max_vars: 5,
    max_rows: 6,
    coef_range: 6,
    quarters: true,
    allow_discrete: true,
    allow_satisfy: true,
    allow_offset: true,
    exotic_names: true,
    continuous_only: false,
};

impl Prop for C04 {
    type Case = LinCase;
    fn id(&self) -> &'static str {
        "C04"
    }
    fn strategy(&self, _tier: Tier) -> BoxedStrategy<LinCase> {
        prop_oneof![
            5 => lin_case(PARAMS),
            4 => lin_case(LinParams { continuous_only: true, ..PARAMS }),
            1 => lin_case(LinParams { continuous_only: true, max_vars: 3, exotic_names: false, ..PARAMS }),
        ]
        .boxed()
    }
    fn budget(&self, tier: Tier) -> usize {
        match tier {
            Tier::Quick => 5_000,
            Tier::Thorough => 200_000,
        }
    }
    fn fixed_cases(&self, _tier: Tier) -> Vec<LinCase> {
        crate::props::c05::structures()
    }
    fn canon(&self, c: &LinCase) -> String {
        serde_json::to_string(&c.pretty()).unwrap()
    }
    fn rule(&self) -> String {
        "linear/MILP models built through the public LinearModel API: 0-5 variables of every domain kind (free, bounded, half-bounded, fixed, Boolean, integer range), 0-6 rows with integer/quarter coefficients incl. zero and duplicated rows, named/unnamed/duplicate-named rows, offsets, min/max/satisfy, solver-internal-looking variable names; each of the five entry points (MILP, auto, real microlp, Clarabel, tableau simplex) is run, the MILP entry point also under a zero time limit and under node limits 1 and 3 (guarded hook), and every returned solution is re-checked against the model (one value per variable, value_of, domains, integrality, rows within 1e-6 scaled, objective incl. offset, named activities). Non-trivial = some solver returned a solution on a model with >=2 variables and a row with >=2 non-zeros. Distinct = distinct model text.".into()
    }
    fn assumptions(&self) -> Vec<String> {
        vec!["tolerance 1e-6 scaled by (1 + |rhs| + sum |a_i x_i|) as stated in DESIGN.md".into()]
    }
    fn check(&self, case: &LinCase) -> Outcome {
        let model = case.to_rooc();
        let mut labels = vec![];
        let mut any_ok = false;
        let mut fails: Vec<(String, String)> = vec![];
        let internal_names = case.vars.iter().any(|v| {
            ["$sl_", "$su_", "$a_", "$p", "$m"].iter().any(|p| v.0.starts_with(p))
        });
        // the recorded microlp hangs are excluded by construction once a few were observed in this run
        // (a hung call cannot be cancelled); the class needs the exact verdict, computed only for
        // models with a free variable
        let hang_prone = crate::props::c05::has_free_var(case) && {
            let truth = crate::oracle::rat::solve_milp(&case.to_problem());
            crate::props::c05::skip_hang_prone(case, &truth)
        };
        for w in ALL.into_iter().chain(LIMITED) {
            if hang_prone && !matches!(w, crate::props::solvers::Which::Clarabel | crate::props::solvers::Which::Tableau) {
                labels.push(format!("{}:excluded-known-hang-class", w.name()));
                continue;
            }
            match solve(w, &model) {
                Ans::Ok(sol) => {
                    any_ok = true;
                    labels.push(format!("{}:Ok", w.name()));
                    if let Err((mut sig, detail)) = check_solution(case, w.name(), &sol, 1e-6) {
                        if internal_names && sig.ends_with(":assignment-names") {
                            sig.push_str(":user-variable-with-solver-internal-prefix");
                        }
                        // the recorded defects of the two dependencies on models whose optimal face is
                        // unbounded (or that are unbounded with a free variable): microlp answers with NaN
                        // values, Clarabel with a far point whose residual is relative to its norm
                        let truth = crate::oracle::rat::solve_milp(&case.to_problem());
                        let microlp = !matches!(w, crate::props::solvers::Which::Clarabel | crate::props::solvers::Which::Tableau);
                        if microlp && crate::props::c05::hang_prone(case, &truth) {
                            sig.push_str(match truth {
                                crate::oracle::rat::Verdict::Unbounded => ":mixed-integer+unbounded+free-var",
                                crate::oracle::rat::Verdict::Optimal { .. } => ":unbounded-optimal-face+free-var",
                                // a solution for a model without any: not an answer the recorded defect gives
                                crate::oracle::rat::Verdict::Infeasible => "",
                            });
                        } else if matches!(w, crate::props::solvers::Which::Clarabel) {
                            match &truth {
                                crate::oracle::rat::Verdict::Optimal { value, .. } if crate::props::c05::optimal_face_unbounded(case, value) => sig.push_str(":unbounded-optimal-face"),
                                // an unbounded model answered with a far point (C05's recorded finding seen
                                // through the certificate)
                                crate::oracle::rat::Verdict::Unbounded => sig.push_str(":model-is-unbounded"),
                                _ => {}
                            }
                        }
                        fails.push((sig, detail));
                    }
                }
                Ans::Infeasible => labels.push(format!("{}:Infeasible", w.name())),
                Ans::Unbounded => labels.push(format!("{}:Unbounded", w.name())),
                Ans::Rejected(_) => labels.push(format!("{}:Rejected", w.name())),
                Ans::Other(_) => labels.push(format!("{}:Other", w.name())),
                Ans::Hang => labels.push(format!("{}:Hang", w.name())),
            }
        }
        let rich = case.n() >= 2
            && case
                .rows
                .iter()
                .any(|r| r.coef.iter().filter(|c| **c != 0.0).count() >= 2);
        Outcome::from_failures(fails, any_ok && rich, labels)
    }
}
