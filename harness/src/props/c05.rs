//! C05 — solver verdicts and optimal values are correct (DESIGN.md §5.5).

use crate::gen::lin::{lin_case, Dom, LinCase, LinParams, LinRow, Sense, R};
use crate::oracle::rat::{solve_milp, Big, Verdict};
use crate::props::solvers::{solve, Ans, Which, ALL};

static HANG_PROBES: std::sync::atomic::AtomicUsize = std::sync::atomic::AtomicUsize::new(0);

/// mixed-integer model, exactly unbounded, with a continuous variable that is infinite on both sides
pub fn in_known_hang_class(case: &LinCase, truth: &Verdict) -> bool {
    matches!(truth, Verdict::Unbounded)
        && case.vars.iter().any(|v| v.1.is_discrete())
        && has_free_var(case)
}

/// Either of the two instance classes on which a microlp-based solver may never return. Used to
/// exclude the recorded finding by construction: once a few calls of a run have really hung
/// (`VERIF_HANG_PROBES`, default 8), further instances of the classes are not handed to those
/// solvers any more and are counted instead, because a hung call cannot be cancelled and burns a
/// core for the rest of the run.
pub fn hang_prone(case: &LinCase, truth: &Verdict) -> bool {
    if !has_free_var(case) {
        return false;
    }
    match truth {
        Verdict::Unbounded => in_known_hang_class(case, truth),
        Verdict::Optimal { value, .. } => optimal_face_unbounded(case, value),
        Verdict::Infeasible => integer_infeasible_with_unbounded_relaxation(case),
    }
}

/// The third instance class of the same dependency defect: a mixed-integer model with a free
/// continuous variable that has no integer point although its continuous relaxation is feasible,
/// and whose relaxation has an unbounded feasible region (branch and bound never gets a bounded
/// node to close the search with). Only called for models the exact oracle proved infeasible.
pub fn integer_infeasible_with_unbounded_relaxation(case: &LinCase) -> bool {
    use crate::oracle::rat::{solve_lp, big};
    if !has_free_var(case) || !case.vars.iter().any(|v| v.1.is_discrete()) {
        return false;
    }
    let mut p = case.to_problem();
    p.int = vec![false; p.n];
    p.obj = vec![big(0.0); p.n];
    if !matches!(solve_lp(&p), Verdict::Optimal { .. }) {
        return false;
    }
    for i in 0..p.n {
        for maximize in [false, true] {
            let mut q = p.clone();
            q.obj[i] = big(1.0);
            q.maximize = maximize;
            if matches!(solve_lp(&q), Verdict::Unbounded) {
                return true;
            }
        }
    }
    false
}

/// true when the class is to be skipped now (enough hangs were observed in this run)
pub fn skip_hang_prone(case: &LinCase, truth: &Verdict) -> bool {
    hang_prone(case, truth) && crate::props::solvers::LEAKED.load(std::sync::atomic::Ordering::SeqCst) >= probe_limit()
}

/// Characterises the three instance classes on which the microlp dependency is known to misbehave
/// (see known_findings.json). The suffix is only attached to the answers those defects produce, so
/// any other wrong answer on the same instances, and the same answers elsewhere, stay unknown.
pub fn microlp_class(case: &LinCase, truth: &Verdict, w: Which, ans: &Ans) -> &'static str {
    if !matches!(w, Which::Milp | Which::Auto | Which::RealMicro) {
        return "";
    }
    let node_unbounded = matches!(ans, Ans::Other(m) if m.contains("bounded B&B node reported unbounded"));
    match truth {
        Verdict::Optimal { value, .. }
            if (matches!(ans, Ans::Unbounded | Ans::Hang) || node_unbounded)
                && has_free_var(case)
                && optimal_face_unbounded(case, value) =>
        {
            ":unbounded-optimal-face+free-var"
        }
        Verdict::Unbounded
            if (matches!(ans, Ans::Hang) || node_unbounded) && in_known_hang_class(case, truth) =>
        {
            ":mixed-integer+unbounded+free-var"
        }
        Verdict::Infeasible
            if (matches!(ans, Ans::Hang) || node_unbounded) && integer_infeasible_with_unbounded_relaxation(case) =>
        {
            ":integer-infeasible+unbounded-relaxation+free-var"
        }
        _ => "",
    }
}

/// a continuous variable without a finite lower bound (free, or bounded above only): the shape
/// on which the microlp defects were observed
pub fn has_free_var(case: &LinCase) -> bool {
    case.vars.iter().any(|v| matches!(v.1, Dom::Real(None, _)))
}

/// Is the set of optimal points unbounded (some variable is unbounded over the optimal face)?
pub fn optimal_face_unbounded(case: &LinCase, value: &Big) -> bool {
    use crate::oracle::rat::{solve_lp, Rel, Row};
    let mut p = case.to_problem();
    // objective row pins the face; relaxation only (the defect concerns continuous variables)
    let coef = p.obj.clone();
    let rhs = value - &p.obj_const;
    p.rows.push(Row { coef, rel: Rel::Eq, rhs });
    p.int = vec![false; p.n];
    for i in 0..p.n {
        for maximize in [false, true] {
            let mut q = p.clone();
            q.obj = vec![crate::oracle::rat::big(0.0); q.n];
            q.obj[i] = crate::oracle::rat::big(1.0);
            q.maximize = maximize;
            if matches!(solve_lp(&q), Verdict::Unbounded) {
                return true;
            }
        }
    }
    false
}
use crate::runner::{Outcome, Prop, Tier};
use num_traits::ToPrimitive;
use proptest::prelude::*;

pub struct C05;

pub const PARAMS: LinParams = LinParams {
    max_vars: 4,
    max_rows: 4,
    coef_range: 5,
    quarters: false,
    allow_discrete: true,
    allow_satisfy: true,
    allow_offset: true,
    exotic_names: false,
    continuous_only: false,
};

fn normalise(mut c: LinCase) -> LinCase {
    if c.sense == Sense::Satisfy {
        // feasibility question only: the objective is irrelevant by definition
        for v in c.obj.iter_mut() {
            *v = 0.0;
        }
    }
    c
}

fn row(name: &str, coef: &[f64], rel: R, rhs: f64) -> LinRow {
    LinRow {
        name: name.into(),
        coef: coef.to_vec(),
        rel,
        rhs,
    }
}

/// The named structures of the property, written out.
pub fn structures() -> Vec<LinCase> {
    let free = Dom::Real(None, None);
    let nn = Dom::NonNeg(0.0, None);
    let v = |doms: &[Dom]| -> Vec<(String, Dom)> {
        doms.iter()
            .enumerate()
            .map(|(i, d)| (format!("x{i}"), d.clone()))
            .collect()
    };
    let mk = |vars, rows, obj: &[f64], offset, sense| LinCase {
        vars,
        rows,
        obj: obj.to_vec(),
        offset,
        sense,
    };
    vec![
        // variable-free, contradictory
        mk(vec![], vec![row("", &[], R::Eq, 1.0)], &[], 1.0, Sense::Min),
        // variable-free, fine
        mk(vec![], vec![row("", &[], R::Le, 1.0)], &[], 2.0, Sense::Max),
        // empty row 0 = 1 next to a variable
        mk(v(&[nn.clone()]), vec![row("", &[0.0], R::Eq, 1.0)], &[1.0], 0.0, Sense::Min),
        // free variable, unbounded optimal face: min x0 - x0 ... objective constant on a line
        mk(
            v(&[free.clone(), free.clone()]),
            vec![row("", &[1.0, -1.0], R::Eq, 0.0)],
            &[1.0, -1.0],
            0.0,
            Sense::Min,
        ),
        // primal and dual infeasible
        mk(
            v(&[free.clone(), free.clone()]),
            vec![row("", &[1.0, -1.0], R::Ge, 1.0), row("", &[1.0, -1.0], R::Le, 0.0)],
            &[1.0, 1.0],
            0.0,
            Sense::Min,
        ),
        // unbounded
        mk(v(&[nn.clone(), nn.clone()]), vec![row("", &[1.0, -1.0], R::Le, 2.0)], &[1.0, 1.0], 0.0, Sense::Max),
        // infeasible continuous LP
        mk(
            v(&[nn.clone(), nn.clone()]),
            vec![row("", &[1.0, 1.0], R::Le, 1.0), row("", &[1.0, 1.0], R::Ge, 3.0)],
            &[1.0, 2.0],
            0.0,
            Sense::Min,
        ),
        // degenerate vertex: three rows through (1,1)
        mk(
            v(&[nn.clone(), nn.clone()]),
            vec![
                row("", &[1.0, 0.0], R::Le, 1.0),
                row("", &[0.0, 1.0], R::Le, 1.0),
                row("", &[1.0, 1.0], R::Le, 2.0),
            ],
            &[1.0, 1.0],
            0.0,
            Sense::Max,
        ),
        // redundant equalities
        mk(
            v(&[nn.clone(), nn.clone()]),
            vec![
                row("", &[1.0, 1.0], R::Eq, 2.0),
                row("", &[2.0, 2.0], R::Eq, 4.0),
                row("", &[1.0, 1.0], R::Eq, 2.0),
            ],
            &[1.0, -1.0],
            3.0,
            Sense::Min,
        ),
        // equality dense with phase 1
        mk(
            v(&[nn.clone(), nn.clone(), nn.clone()]),
            vec![
                row("", &[1.0, 1.0, 1.0], R::Eq, 3.0),
                row("", &[1.0, -1.0, 0.0], R::Eq, 1.0),
                row("", &[0.0, 1.0, -1.0], R::Eq, -1.0),
            ],
            &[1.0, 2.0, 3.0],
            0.0,
            Sense::Min,
        ),
        // integer infeasible though LP feasible
        mk(
            v(&[Dom::Int(0, 3), Dom::Int(0, 3)]),
            vec![row("", &[2.0, 2.0], R::Eq, 3.0)],
            &[1.0, 1.0],
            0.0,
            Sense::Min,
        ),
    ]
}

pub fn verdict_name(v: &Verdict) -> &'static str {
    match v {
        Verdict::Optimal { .. } => "Optimal",
        Verdict::Infeasible => "Infeasible",
        Verdict::Unbounded => "Unbounded",
    }
}

impl Prop for C05 {
    type Case = LinCase;
    fn id(&self) -> &'static str {
        "C05"
    }
    fn strategy(&self, _tier: Tier) -> BoxedStrategy<LinCase> {
        prop_oneof![
            6 => lin_case(PARAMS),
            3 => lin_case(LinParams { continuous_only: true, ..PARAMS }),
            1 => lin_case(LinParams { max_vars: 2, max_rows: 4, continuous_only: true, ..PARAMS }),
        ]
        .prop_map(normalise)
        .boxed()
    }
    fn budget(&self, tier: Tier) -> usize {
        match tier {
            Tier::Quick => 6_000,
            Tier::Thorough => 250_000,
        }
    }
    fn fixed_cases(&self, _tier: Tier) -> Vec<LinCase> {
        let mut v = structures();
        // witness of the known finding microlp-hang-unbounded-mixed-integer (always re-observed)
        v.push(LinCase {
            vars: vec![
                ("x0".into(), Dom::Bool),
                ("x1".into(), Dom::Bool),
                ("x2".into(), Dom::Bool),
                ("x3".into(), Dom::Real(None, None)),
            ],
            rows: vec![
                row("r0", &[-2.0, 4.0, -2.0, 2.0], R::Le, 5.0),
                row("", &[-3.0, 1.0, 1.0, 0.0], R::Le, -1.0),
            ],
            obj: vec![-3.0, 1.0, 3.0, -2.0],
            offset: 1.0,
            sense: Sense::Max,
        });
        // witnesses of the known finding microlp-integer-infeasible-unbounded-relaxation (the two
        // that answer with an error; the hanging ones are left to the generator)
        v.push(LinCase {
            vars: vec![("x0".into(), Dom::Real(None, None)), ("x1".into(), Dom::Bool), ("x2".into(), Dom::Bool)],
            rows: vec![row("", &[0.0, 2.0, -2.0], R::Eq, 1.0)],
            obj: vec![0.0, 0.0, 0.0],
            offset: 0.0,
            sense: Sense::Min,
        });
        v.push(LinCase {
            vars: vec![("x0".into(), Dom::Real(None, None)), ("x1".into(), Dom::Bool), ("x2".into(), Dom::Bool)],
            rows: vec![row("", &[0.0, 4.0, -2.0], R::Eq, -1.0)],
            obj: vec![-1.0, 0.0, 4.0],
            offset: -5.0,
            sense: Sense::Min,
        });
        v
    }
    fn canon(&self, c: &LinCase) -> String {
        serde_json::to_string(&c.pretty()).unwrap()
    }
    fn rule(&self) -> String {
        "linear/MILP models with <=4 variables (Boolean, integer range, free/bounded/non-negative real), <=4 rows, integer data in [-5,5], min/max/satisfy, zero and duplicated rows, plus the hand-written structure list; exact verdict from a rational simplex + branch and bound; every built-in solver entry point that accepts the model is compared. Non-trivial = exact verdict is Infeasible or Unbounded, or the optimum is degenerate (more tight rows/bounds than variables), or the all-lower-bounds point is infeasible (phase 1 needed). Distinct = distinct model text.".into()
    }
    fn assumptions(&self) -> Vec<String> {
        vec![
            "oracle: own exact rational simplex/B&B, cross-checked against enumeration and Fourier-Motzkin at start-up".into(),
            "Clarabel answering Other(..) is skipped (interior point may fail to converge); a wrong verdict from it is a violation".into(),
        ]
    }
    fn check(&self, case: &LinCase) -> Outcome {
        let p = case.to_problem();
        let truth = solve_milp(&p);
        let model = case.to_rooc();
        let mut labels: Vec<String> = vec![format!("truth:{}", verdict_name(&truth))];
        let mut answered = 0;
        let mut fails: Vec<(String, String)> = vec![];
        for w in ALL {
            if matches!(w, Which::Milp | Which::Auto | Which::RealMicro) && skip_hang_prone(case, &truth) {
                // Known finding (microlp never returns on some of these): a few per run are probed so
                // the finding is re-observed, the rest is excluded by construction and counted.
                labels.push(format!("{}:excluded-known-hang-class", w.name()));
                continue;
            }
            let ans = solve(w, &model);
            let got = match &ans {
                Ans::Ok(_) => "Ok",
                Ans::Infeasible => "Infeasible",
                Ans::Unbounded => "Unbounded",
                Ans::Rejected(_) => "Rejected",
                Ans::Other(_) => "Other",
                Ans::Hang => "Hang",
            };
            labels.push(format!("{}:{}", w.name(), got));
            match (&ans, &truth) {
                (Ans::Rejected(_), _) => continue,
                (Ans::Hang, t) => {
                    let class = microlp_class(case, t, w, &ans);
                    fails.push((
                        format!("{}:Hang-vs-{}{}", w.name(), verdict_name(t), class),
                        format!("{} did not return within {}s; exact verdict {}", w.name(), crate::props::solvers::hang_seconds(), verdict_name(t)),
                    ));
                    continue;
                }
                (Ans::Other(msg), _) => {
                    if w.simplex_based() {
                        let class = microlp_class(case, &truth, w, &ans);
                        fails.push((
                            format!("{}:Other-vs-{}{}", w.name(), verdict_name(&truth), class),
                            format!("{} returned {msg}; exact verdict {}", w.name(), verdict_name(&truth)),
                        ));
                    }
                    continue;
                }
                (Ans::Ok(sol), Verdict::Optimal { value, .. }) => {
                    let v = value.to_f64().unwrap_or(f64::NAN);
                    if !((sol.value - v).abs() <= 1e-6 * v.abs().max(1.0)) {
                        fails.push((
                            format!("{}:value-mismatch", w.name()),
                            format!("{} value {} but exact optimum {} ({})", w.name(), sol.value, v, value),
                        ));
                        continue;
                    }
                }
                (Ans::Infeasible, Verdict::Infeasible) | (Ans::Unbounded, Verdict::Unbounded) => {}
                (a, t) => {
                    let what = match a {
                        Ans::Ok(s) => format!("Ok(value {})", s.value),
                        _ => got.to_string(),
                    };
                    // Clarabel on an unbounded model sometimes stops at a point of astronomic size and
                    // calls it solved (recorded finding): a value beyond 1e12 is that situation
                    let astronomic = matches!((w, a, t), (Which::Clarabel, Ans::Ok(s), Verdict::Unbounded) if s.value.abs() >= 1e12 || s.values.iter().any(|v| v.abs() >= 1e8));
                    let sig = format!(
                        "{}:{}-vs-{}{}{}",
                        w.name(),
                        got,
                        verdict_name(t),
                        microlp_class(case, t, w, a),
                        if astronomic { ":astronomic-value" } else { "" }
                    );
                    fails.push((
                        sig,
                        format!("{} answered {what}; exact verdict {}", w.name(), verdict_name(t)),
                    ));
                    continue;
                }
            }
            answered += 1;
        }
        if !fails.is_empty() {
            return Outcome::Multi(fails);
        }
        if answered == 0 {
            return Outcome::Skip("no solver accepted the model".into());
        }
        let nontrivial = match &truth {
            Verdict::Optimal { x, .. } => {
                let degenerate = tight_count(case, x) > case.n();
                let phase1 = !origin_feasible(case);
                if degenerate {
                    labels.push("degenerate".into());
                }
                if phase1 {
                    labels.push("phase1".into());
                }
                degenerate || phase1
            }
            _ => true,
        };
        Outcome::Pass { nontrivial, labels }
    }
}

fn tight_count(case: &LinCase, x: &[Big]) -> usize {
    let p = case.to_problem();
    let mut n = 0;
    for r in &p.rows {
        let mut s = crate::oracle::rat::big(0.0);
        for (c, xi) in r.coef.iter().zip(x) {
            s += c * xi;
        }
        if s == r.rhs {
            n += 1;
        }
    }
    for i in 0..p.n {
        if p.lo[i].as_ref() == Some(&x[i]) {
            n += 1;
        } else if p.hi[i].as_ref() == Some(&x[i]) {
            n += 1;
        }
    }
    n
}

fn origin_feasible(case: &LinCase) -> bool {
    let p = case.to_problem();
    let x: Vec<Big> = (0..p.n)
        .map(|i| match (&p.lo[i], &p.hi[i]) {
            (Some(l), _) => l.clone(),
            (None, Some(h)) if *h < crate::oracle::rat::big(0.0) => h.clone(),
            _ => crate::oracle::rat::big(0.0),
        })
        .collect();
    p.is_feasible(&x)
}

fn probe_limit() -> usize {
    std::env::var("VERIF_HANG_PROBES").ok().and_then(|s| s.parse().ok()).unwrap_or(8)
}
