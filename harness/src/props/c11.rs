//! C11 — formatting preserves meaning and is idempotent (DESIGN.md §5.11).

use crate::gen::lin::Dom;
use crate::gen::model::{model_case, ModelCase, ModelParams, SCons, SObj};
use crate::gen::text::{dom_text, print, Op, Style};
use crate::oracle::sem::{Cmp, SExp};
use crate::props::c09::mixed_exp;
use crate::runner::{Outcome, Prop, Tier};
use indexmap::IndexMap;
use proptest::prelude::*;
use rooc::RoocParser;
use serde::{Deserialize, Serialize};

pub struct C11;

#[derive(Clone, Debug, Serialize, Deserialize)]
pub struct Case {
    pub model: ModelCase,
    pub style: u64,
    /// named constants of the `where` block and where they are used
    pub consts: Vec<(String, f64)>,
    pub comments: bool,
    /// literal source (directed cases); when set the fields above are ignored
    pub literal: Option<String>,
}

impl Case {
    pub fn text(&self) -> String {
        if let Some(t) = &self.literal {
            return t.clone();
        }
        let m = &self.model;
        let mut st = Style::from_bits(self.style);
        let obj = match &m.obj {
            SObj::Min(e) => format!("min {}", print(e, &mut st)),
            SObj::Max(e) => format!("max {}", print(e, &mut st)),
            SObj::Satisfy => "solve".to_string(),
        };
        let mut lines = vec![];
        if self.comments {
            lines.push("// generated model".to_string());
        }
        lines.push(obj);
        lines.push(if self.style & (1 << 40) != 0 { "subject to".into() } else { "s.t.".into() });
        for (i, c) in m.cons.iter().enumerate() {
            let name = if c.name.is_empty() { String::new() } else { format!("{}: ", c.name) };
            let body = if c.bare {
                print(&c.lhs, &mut st)
            } else {
                format!("{} {} {}", print(&c.lhs, &mut st), c.rel.text(), print(&c.rhs, &mut st))
            };
            lines.push(format!("    {name}{body}"));
            if self.comments && i == 0 {
                lines.push("    /* block comment */".into());
            }
        }
        // constants are used by extra rows so that the where block is live
        for (i, (k, _)) in self.consts.iter().enumerate() {
            if let Some((v, _)) = m.vars.get(i % m.vars.len().max(1)) {
                lines.push(format!("    {k} * {v} <= {k} + 1"));
            }
        }
        if !self.consts.is_empty() {
            lines.push("where".into());
            for (k, v) in &self.consts {
                lines.push(format!("    let {k} = {}", crate::gen::text::print_min(&SExp::Num(*v))));
            }
        }
        lines.push("define".into());
        for (n, d) in &m.vars {
            lines.push(format!("    {} as {}", n, dom_text(d)));
        }
        lines.join("\n")
    }
}

fn untyped_case(exp: SExp, rhs: Option<SExp>, style: u64) -> Case {
    let mut vars = vec![];
    exp.vars(&mut vars);
    if let Some(r) = &rhs {
        r.vars(&mut vars);
    }
    if vars.is_empty() {
        vars.push("zz".into());
    }
    Case {
        model: ModelCase {
            vars: vars.into_iter().map(|v| (v, Dom::Bool)).collect(),
            cons: vec![SCons {
                name: String::new(),
                lhs: exp,
                rel: Cmp::Le,
                rhs: rhs.unwrap_or(SExp::Num(1.0)),
                bare: false,
            }],
            obj: SObj::Satisfy,
            structural_logic: true,
            mark_all_used: false,
            point_seed: 0,
        },
        style,
        consts: vec![],
        comments: false,
        literal: None,
    }
}

fn bin(op: Op, a: SExp, b: SExp) -> SExp {
    match op {
        Op::Add => SExp::Add(a.b(), b.b()),
        Op::Sub => SExp::Sub(a.b(), b.b()),
        Op::Mul => SExp::Mul(a.b(), b.b()),
        Op::Div => SExp::Div(a.b(), b.b()),
        Op::And => SExp::And(vec![a, b]),
        Op::Or => SExp::Or(vec![a, b]),
        Op::Xor => SExp::Xor(a.b(), b.b()),
        Op::Implies => SExp::Implies(a.b(), b.b()),
        Op::Iff => SExp::Iff(a.b(), b.b()),
    }
}

const OPS: [Op; 9] = [Op::Add, Op::Sub, Op::Mul, Op::Div, Op::And, Op::Or, Op::Xor, Op::Implies, Op::Iff];

/// every (parent operator, child operator, side) triple and every prefix/binary nesting of depth 2
fn triples() -> Vec<Case> {
    let v = SExp::var;
    let mut out = vec![];
    for p in OPS {
        for c in OPS {
            out.push(untyped_case(bin(p, bin(c, v("a"), v("b")), v("c")), None, 0));
            out.push(untyped_case(bin(p, v("a"), bin(c, v("b"), v("c"))), None, 0));
            out.push(untyped_case(bin(p, bin(c, v("a"), v("b")), bin(c, v("c"), v("d"))), None, 0));
        }
        out.push(untyped_case(SExp::Neg(bin(p, v("a"), v("b")).b()), None, 0));
        out.push(untyped_case(SExp::Not(bin(p, v("a"), v("b")).b()), None, 0));
        out.push(untyped_case(bin(p, SExp::Neg(v("a").b()), SExp::Not(v("b").b())), None, 0));
        out.push(untyped_case(bin(p, SExp::Num(-2.0), v("b")), None, 0));
        out.push(untyped_case(bin(p, v("a"), SExp::Num(-2.0)), None, 0));
        out.push(untyped_case(bin(p, v("a"), SExp::Mul(SExp::Num(2.0).b(), v("x").b())), None, 4 /* implicit mul */));
    }
    out.push(untyped_case(SExp::Neg(SExp::Neg(v("a").b()).b()), None, 0));
    out.push(untyped_case(SExp::Neg(SExp::Num(-2.0).b()), None, 0));
    out.push(untyped_case(SExp::Not(SExp::Not(v("a").b()).b()), None, 0));
    out.push(untyped_case(SExp::Not(SExp::Neg(v("a").b()).b()), None, 0));
    out
}

fn literals() -> Vec<Case> {
    let src = [
        "max sum((value, i) in enumerate(values)) { value * x_i }\ns.t.\n    sum((weight, i) in enumerate(weights)) { weight * x_i } <= capacity\nwhere\n    let weights = [10, 60, 30]\n    let values = [1, 10, 15]\n    let capacity = 102\ndefine\n    x_i as Boolean for i in 0..len(weights)",
        "min sum(u in nodes(G)) { x_u }\ns.t.\n    x_v + x_u >= 1 for (v, u) in edges(G)\nwhere\n    let G = Graph {\n        A -> [B, C, D],\n        B -> [A: 2],\n        C -> [],\n        D\n    }\ndefine\n    x_u, x_v as Boolean for v in nodes(G), (_, u) in edges(G)",
        "min x_1 + \\x_2 + y\ns.t.\n    cap_i: x_i <= a[i] for i in 0..=1\n    x_{i + 1} - (y - x_i) >= 0 for i in 0..1\n    avg { x_1, y } / 2x_2 <= 3\nwhere\n    let a = [3, 4.5]\ndefine\n    x_i as NonNegativeReal(0, 10) for i in 0..2\n    \\x_2 as Real\n    y as IntegerRange(-2, 4)",
        "min \\x_i + 2 * \\y_j_k - x_i\ns.t.\n    \\x_i >= i\n    \\y_j_k >= x_i + \\x_i\nwhere\n    let i = 5\ndefine\n    \\x_i as Real\n    \\y_j_k as NonNegativeReal\n    x_i as Real",
        "solve\ns.t.\n    a -> b <-> c\n    (a -> b) <-> c\n    not (a and b) or c xor a\n    any { a, b } implies all { b, c }\ndefine\n    a, b, c as Boolean",
        "max 2(x + y) - 3x / 2\ns.t.\n    x - (y - z) <= 4\n    x / (2 * y) >= -1\n    -(x + y) <= -(-2)\n    x * -2 <= 0 * (y / 1)\ndefine\n    x, y, z as Real(-10, 10)",
"min x + y + z + w\ns.t.\n    x + y + z + w >= 1\n    z - w <= 2\ndefine\n    x as NonNegativeReal(2)\n    y as Real(-1)\n    z as Real(-3, 4)\n    w as NonNegativeReal(0.5, 6)\n    v as NonNegativeReal(0)",
        "min sum(i in r) { x_i } + len(q) * y\ns.t.\n    x_i >= 1 for i in r\n    sum((v, j) in enumerate(q)) { v * y } <= len(zip(q, q)) + len(union(q, w))\n    sum(j in intersection(q, w)) { j * y } + sum(j in difference(q, w)) { j * y } <= 9\n    y >= 0 for k in range(1, 3, false)\nwhere\n    let r = range(0, 3, true)\n    let h = range(0, 2, false)\n    let q = [1, 2, 3]\n    let w = [2, 5]\n    let n = len(h)\ndefine\n    x_i as Real(0, 5) for i in r\n    y as Real(0, 5)",
                "min prod(i in 1..=3) { i } * x + max(i in 0..2) { i * y } - min { x, y }\ns.t.\n    sum(i in 0..2, j in i..3) { c[i][j] * x } <= len(c)\nwhere\n    let c = [[1, 2, 3], [4, 5, 6]]\ndefine\n    x, y as NonNegativeReal",
    ];
    src.iter()
        .map(|s| Case {
            model: ModelCase { vars: vec![], cons: vec![], obj: SObj::Satisfy, structural_logic: true, mark_all_used: false, point_seed: 0 },
            style: 0,
            consts: vec![],
            comments: false,
            literal: Some(s.to_string()),
        })
        .collect()
}

fn strip(v: &mut serde_json::Value) {
    match v {
        serde_json::Value::Object(m) => {
            m.remove("span");
            m.remove("usage_count");
            for (_, x) in m.iter_mut() {
                strip(x);
            }
        }
        serde_json::Value::Array(a) => a.iter_mut().for_each(strip),
        _ => {}
    }
}

pub fn model_json(m: &rooc::model_transformer::Model) -> serde_json::Value {
    let mut v = serde_json::to_value(m).unwrap_or(serde_json::Value::Null);
    strip(&mut v);
    v
}

const PARAMS: ModelParams = ModelParams { max_vars: 4, max_cons: 4, depth: 4, inexact: true, unbounded_decl: true, objective: true };

impl Prop for C11 {
    type Case = Case;
    fn id(&self) -> &'static str {
        "C11"
    }
    fn strategy(&self, _tier: Tier) -> BoxedStrategy<Case> {
        let names: Vec<String> = ["a", "b", "c", "x", "y", "notx", "minx", "_c1", "__u"].iter().map(|s| s.to_string()).collect();
        let konst = proptest::collection::vec((0usize..3, prop_oneof![Just(2.0), Just(0.5), Just(-3.0), Just(7.25)]), 0..=2)
            .prop_map(|v| v.into_iter().enumerate().map(|(i, (_, c))| (format!("k{i}"), c)).collect::<Vec<_>>());
        prop_oneof![
            5 => (model_case(PARAMS), any::<u64>(), konst, any::<bool>()).prop_map(|(model, style, consts, comments)| Case { model, style, consts, comments, literal: None }),
            4 => (mixed_exp(&names, 5), proptest::option::of(mixed_exp(&names, 3)), any::<u64>()).prop_map(|(e, r, s)| untyped_case(e, r, s)),
            // data-driven programs (iterations, aggregations, graphs, destructuring, computed
            // subscripts) from C06's generator, both the driven text and its hand-unrolled twin
            4 => (crate::gen::data::data_prog(), any::<bool>()).prop_map(|(d, unrolled)| {
                let (driven, flat) = d.texts();
                Case { model: ModelCase { vars: vec![], cons: vec![], obj: SObj::Satisfy, structural_logic: true, mark_all_used: false, point_seed: 0 }, style: 0, consts: vec![], comments: false, literal: Some(if unrolled { flat } else { driven }) }
            }),
        ]
        .boxed()
    }
    fn budget(&self, tier: Tier) -> usize {
        match tier {
            Tier::Quick => 20_000,
            Tier::Thorough => 400_000,
        }
    }
    fn fixed_cases(&self, _tier: Tier) -> Vec<Case> {
        let mut v = literals();
        v.extend(triples());
        v
    }
    fn exhaustive_stratum(&self, _tier: Tier) -> Option<String> {
        Some("every (parent, child, side) pair of the 9 binary operators at depth 2, every prefix operator over every binary operator, prefix over prefix, negative constants beside every operator".into())
    }
    fn canon(&self, c: &Case) -> String {
        serde_json::to_string(&c.text()).unwrap()
    }
    fn rule(&self) -> String {
        "full source texts: generated models (objective, 1-4 constraints from the typed grammar, named rows, where-constants used by extra rows, comments, 's.t.' or 'subject to', all declaration forms incl. infinite bounds) printed with random spelling (keyword/symbolic operators, required or redundant parentheses, implicit multiplication, all{}/any{} blocks), untyped operator trees of depth <= 5 over all 9 binary and 2 prefix operators, the exhaustive depth-2 nesting table, literal programs with iterations, graphs, enumerate, escaped and indexed names, and data-driven programs from C06's generator (ranges, arrays, matrices, graphs, enumerate/zip/set functions, scoped blocks, tuple destructuring, empty and growing aggregations, computed subscripts such as x_{a[i]} and x_{len(a) - 1}) together with their hand-unrolled twins. Oracle: format() succeeds, the formatted text parses, formats to itself, and parse_and_transform of original and formatted text give the same Model (JSON compared without spans) or fail alike. Non-trivial = the text holds a nesting where dropping parentheses would change grouping, or a construct other than plain arithmetic. Distinct = distinct text.".into()
    }
    fn check(&self, case: &Case) -> Outcome {
        let src = case.text();
        let p = RoocParser::new(src.clone());
        if let Err(e) = p.parse() {
            return match case.literal {
                Some(_) => Outcome::fail("harness:literal-does-not-parse", format!("{src}\n{}", e.to_string_from_source(&src))),
                // generated texts are in the documented language: a parse failure is C09's business
                None => Outcome::Skip("source does not parse".into()),
            };
        }
        let formatted = match p.format() {
            Ok(f) => f,
            Err(e) => return Outcome::fail("format-failed", format!("{src}\n{}", e.to_string_from_source(&src))),
        };
        let p2 = RoocParser::new(formatted.clone());
        if let Err(e) = p2.parse() {
            return Outcome::fail(
                "formatted-text-does-not-parse",
                format!("source:\n{src}\nformatted:\n{formatted}\n{e}"),
            );
        }
        let mut fails = vec![];
        match p2.format() {
            Ok(again) if again == formatted => {}
            Ok(again) => fails.push(("format-not-idempotent".to_string(), format!("source:\n{src}\nformatted:\n{formatted}\nagain:\n{again}"))),
            Err(_) => fails.push(("format-not-idempotent".to_string(), format!("second format failed\n{formatted}"))),
        }
        let fns = IndexMap::new();
        let a = p.parse_and_transform(vec![], &fns);
        let b = p2.parse_and_transform(vec![], &fns);
        match (&a, &b) {
            (Ok(ma), Ok(mb)) => {
                let (ja, jb) = (model_json(ma), model_json(mb));
                if ja != jb {
                    fails.push((
                        "formatted-model-differs".to_string(),
                        format!("source:\n{src}\nformatted:\n{formatted}\nmodel of source:\n{ma}\nmodel of formatted:\n{mb}"),
                    ));
                }
            }
            (Err(_), Err(_)) => {}
            (Ok(_), Err(e)) => fails.push(("formatted-text-fails-to-transform".to_string(), format!("source:\n{src}\nformatted:\n{formatted}\n{e}"))),
            (Err(e), Ok(_)) => fails.push(("only-source-fails-to-transform".to_string(), format!("source:\n{src}\nformatted:\n{formatted}\n{e}"))),
        }
        let nontrivial = src.contains('(') || src.contains('{') || src.contains("not") || src.contains('!');
        let mut labels = vec![];
        // "never turns a valid program into an invalid one": the checker's verdict as well
        let consts = IndexMap::new();
        match (p.type_check(&vec![], &consts), p2.type_check(&vec![], &consts)) {
            (Ok(_), Err(e)) => fails.push((
                "formatted-text-fails-type-check".to_string(),
                format!("source (accepted by the type checker):\n{src}\nformatted:\n{formatted}\n{e}"),
            )),
            (Err(_), Ok(_)) => labels.push("only-formatted-text-type-checks".to_string()),
            _ => {}
        }
        if a.is_err() {
            labels.push("transform-error-both".to_string());
        }
        Outcome::from_failures(fails, nontrivial, labels)
    }
}
