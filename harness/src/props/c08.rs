//! C08 — compiled linear models are well-formed; no guessed or non-finite constants (§5.8).

use crate::gen::model::{model_case, ModelCase, ModelParams, SObj};
use crate::oracle::sem::SExp;
use crate::props::lincheck::{compile, err_kind, well_formed};
use crate::runner::{Outcome, Prop, Tier};
use proptest::prelude::*;
use rooc::LinearizationError;

pub struct C08;

const PARAMS: ModelParams = ModelParams {
    max_vars: 4,
    max_cons: 4,
    depth: 3,
    inexact: true,
    unbounded_decl: true,
    objective: true,
};

const AUX_LIKE: [&str; 10] = [
    "$abs_0", "$min_0", "$max_0", "$max_0_select_1", "$and_0", "$or_0", "$xor_0", "$implies_0",
    "$iff_0", "$logic_witness_0",
];

fn rename(e: &mut SExp, from: &str, to: &str) {
    match e {
        SExp::Num(_) => {}
        SExp::Var(n) => {
            if n == from {
                *n = to.to_string()
            }
        }
        SExp::Neg(x) | SExp::Abs(x) | SExp::Not(x) => rename(x, from, to),
        SExp::Add(a, b)
        | SExp::Sub(a, b)
        | SExp::Mul(a, b)
        | SExp::Div(a, b)
        | SExp::Xor(a, b)
        | SExp::Implies(a, b)
        | SExp::Iff(a, b) => {
            rename(a, from, to);
            rename(b, from, to);
        }
        SExp::Min(es) | SExp::Max(es) | SExp::And(es) | SExp::Or(es) => {
            for x in es {
                rename(x, from, to)
            }
        }
    }
}

/// replaces the k-th numeric constant (in traversal order) by an infinite constant
fn inject_infinity(e: &mut SExp, k: &mut i64, neg: bool) {
    match e {
        SExp::Num(_) => {
            if *k == 0 {
                *e = SExp::Var(if neg { "MinusInfinity" } else { "Infinity" }.to_string());
            }
            *k -= 1;
        }
        SExp::Var(_) => {}
        SExp::Neg(x) | SExp::Abs(x) | SExp::Not(x) => inject_infinity(x, k, neg),
        SExp::Add(a, b) | SExp::Sub(a, b) | SExp::Mul(a, b) | SExp::Div(a, b) => {
            inject_infinity(a, k, neg);
            inject_infinity(b, k, neg);
        }
        SExp::Xor(..) | SExp::Implies(..) | SExp::Iff(..) | SExp::And(_) | SExp::Or(_) => {}
        SExp::Min(es) | SExp::Max(es) => {
            for x in es {
                inject_infinity(x, k, neg)
            }
        }
    }
}

fn edge(mut c: ModelCase, bits: u64) -> ModelCase {
    let pick = |shift: u32, n: u64| ((bits >> shift) % n) as usize;
    // aux-like user names
    if bits & 1 == 1 && !c.vars.is_empty() {
        let i = pick(8, c.vars.len() as u64);
        let to = AUX_LIKE[pick(12, AUX_LIKE.len() as u64)];
        if !c.vars.iter().any(|v| v.0 == to) {
            let from = c.vars[i].0.clone();
            c.vars[i].0 = to.to_string();
            for k in c.cons.iter_mut() {
                rename(&mut k.lhs, &from, to);
                rename(&mut k.rhs, &from, to);
            }
            if let SObj::Min(e) | SObj::Max(e) = &mut c.obj {
                rename(e, &from, to);
            }
        }
    }
    // names that look like the de-duplication suffix
    if bits & 2 == 2 {
        for (i, k) in c.cons.iter_mut().enumerate() {
            match (bits >> (16 + 2 * i)) & 3 {
                0 => k.name = "dup".into(),
                1 => k.name = "dup__2".into(),
                2 => k.name = "dup__3".into(),
                _ => {}
            }
        }
    }
    // infinite constants
    if bits & 4 == 4 && !c.cons.is_empty() {
        let i = pick(24, c.cons.len() as u64);
        let mut k = pick(28, 4) as i64;
        let neg = bits & 8 == 8;
        let side = bits & 16 == 16;
        let target = if side && !c.cons[i].bare { &mut c.cons[i].rhs } else { &mut c.cons[i].lhs };
        inject_infinity(target, &mut k, neg);
    }
    if bits & 32 == 32 {
        if let SObj::Min(e) | SObj::Max(e) = &mut c.obj {
            let mut k = pick(32, 3) as i64;
            inject_infinity(e, &mut k, bits & 64 == 64);
        }
    }
    // finite constants whose products or sums overflow, written on both sides so that the
    // overflows cancel (inf - inf): the result must be a rejection, never a NaN in the model
    if (bits >> 40) & 7 == 7 {
        let h = |v: f64| SExp::Num(v);
        let scale2 = |e: SExp| SExp::Mul(h(1e200).b(), SExp::Mul(h(1e200).b(), e.b()).b());
        let pad = |e: SExp| SExp::Add(SExp::Add(h(1e308).b(), e.b()).b(), h(1e308).b());
        let form = (bits >> 44) & 3;
        let non_bare: Vec<usize> = (0..c.cons.len()).filter(|i| !c.cons[*i].bare).collect();
        if form == 3 || non_bare.is_empty() {
            if let SObj::Min(e) | SObj::Max(e) = &mut c.obj {
                let inner = e.clone();
                *e = SExp::Sub(pad(inner.clone()).b(), pad(SExp::Num(1.0)).b());
            }
        } else {
            let i = non_bare[pick(48, non_bare.len() as u64)];
            let (l, r) = (c.cons[i].lhs.clone(), c.cons[i].rhs.clone());
            if form == 0 {
                c.cons[i].lhs = SExp::Add(scale2(l.clone()).b(), l.b());
                c.cons[i].rhs = SExp::Add(scale2(r.clone()).b(), r.b());
            } else {
                c.cons[i].lhs = pad(l);
                c.cons[i].rhs = pad(r);
            }
        }
    }
    c
}

/// Name stress: only rows `x0 <= 10+i`, so row i is identified by its right-hand side and the
/// name it ends up with can be tied to the constraint it came from.
fn name_stress() -> BoxedStrategy<ModelCase> {
    use crate::gen::lin::Dom;
    use crate::gen::model::SCons;
    use crate::oracle::sem::Cmp;
    let name = prop_oneof![
        2 => Just(""),
        3 => Just("dup"),
        2 => Just("dup__2"),
        1 => Just("dup__3"),
        1 => Just("other"),
        1 => Just("dup__2__2"),
    ];
    (proptest::collection::vec(name, 2..=6), any::<u64>())
        .prop_map(|(names, seed)| ModelCase {
            vars: vec![("x0".to_string(), Dom::Real(Some(0.0), Some(100.0)))],
            cons: names
                .iter()
                .enumerate()
                .map(|(i, n)| SCons {
                    name: n.to_string(),
                    lhs: SExp::var("x0"),
                    rel: Cmp::Le,
                    rhs: SExp::Num(10.0 + i as f64),
                    bare: false,
                })
                .collect(),
            obj: SObj::Satisfy,
            structural_logic: true,
            mark_all_used: false,
            point_seed: seed,
        })
        .boxed()
}

fn is_name_stress(c: &ModelCase) -> bool {
    c.vars.len() == 1
        && c.cons.iter().enumerate().all(|(i, k)| {
            !k.bare && k.lhs == SExp::var("x0") && k.rhs == SExp::Num(10.0 + i as f64)
        })
}

/// In a name-stress model: the row of constraint i keeps exactly its user name when it is the
/// first constraint carrying that name.
fn check_name_provenance(c: &ModelCase, m: &rooc::LinearModel) -> Result<(), (String, String)> {
    for (i, k) in c.cons.iter().enumerate() {
        let first = !c.cons[..i].iter().any(|p| p.name == k.name);
        let Some(row) = m.constraints().iter().find(|r| r.rhs() == 10.0 + i as f64) else {
            return Err(("row-missing".into(), format!("no row with right-hand side {}", 10 + i)));
        };
        if k.name.is_empty() {
            if !row.name().is_empty() {
                return Err(("unnamed-row-got-a-name".into(), format!("row {i} is named {:?}", row.name())));
            }
        } else if first && row.name() != k.name {
            return Err((
                "first-use-of-user-name-not-preserved".into(),
                format!("constraint {i} is the first named {:?} but its row is named {:?}", k.name, row.name()),
            ));
        }
    }
    Ok(())
}

impl Prop for C08 {
    type Case = ModelCase;
    fn id(&self) -> &'static str {
        "C08"
    }
    fn strategy(&self, _tier: Tier) -> BoxedStrategy<ModelCase> {
        prop_oneof![
            9 => (model_case(PARAMS), any::<u64>(), 0u8..4)
                .prop_map(|(c, bits, plain)| if plain == 0 { c } else { edge(c, bits) }),
            1 => name_stress(),
        ]
        .boxed()
    }
    fn budget(&self, tier: Tier) -> usize {
        match tier {
            Tier::Quick => 40_000,
            Tier::Thorough => 1_000_000,
        }
    }
    fn canon(&self, c: &ModelCase) -> String {
        serde_json::to_string(&c.text()).unwrap()
    }
    fn rule(&self) -> String {
        "source models as in C01/C02 (with objective, inexact constants, unbounded declarations) of which three quarters carry edge features: a user variable named like a compiler auxiliary ($abs_0, $or_0, $max_0_select_1, ...), constraint names that duplicate each other or look like the de-duplication suffix (dup, dup__2, dup__3), the constants Infinity / MinusInfinity injected in constraints and objective, finite constants (1e200, 1e308 written out) whose products and sums overflow and cancel, declared-but-unused variables. Every successfully compiled model is checked against the invariant list (sorted duplicate-free variables = domain keys, source variables present, one coefficient per variable in every row and the objective, finite coefficients / right-hand sides / offset, unique non-empty row names, every user-written name still on a row, declared variables keep their kind inside their declaration); a MissingFiniteBounds error must name at least one variable, only variables of the source, each with an infinite derived side; a NonFiniteNumber error for a source without infinite constants is a violation (the missing bound was turned into a constant). Non-trivial = compiled model with an edge feature (duplicate or suffix-like name, unused declaration, infinite constant, aux-like user name). Distinct = distinct model text.".into()
    }
    fn check(&self, case: &ModelCase) -> Outcome {
        let referenced = case.referenced_vars();
        let mut names: Vec<String> = vec![];
        for c in &case.cons {
            if !c.name.is_empty() && !names.contains(&c.name) {
                names.push(c.name.clone());
            }
        }
        // an infinite number can be written (Infinity) or made by finite constants that overflow
        let mut consts = vec![];
        for k in &case.cons {
            k.lhs.consts(&mut consts);
            k.rhs.consts(&mut consts);
        }
        if let SObj::Min(e) | SObj::Max(e) = &case.obj {
            e.consts(&mut consts);
        }
        let has_inf = case.text().contains("Infinity") || consts.iter().any(|c| c.abs() >= 1e100);
        let unused = case.vars.iter().any(|v| !referenced.contains(&v.0));
        let auxlike = case.vars.iter().any(|v| v.0.starts_with('$'));
        let dupnames = {
            let all: Vec<&String> = case.cons.iter().map(|c| &c.name).filter(|n| !n.is_empty()).collect();
            all.len() != names.len() || names.iter().any(|n| n.contains("__"))
        };
        let mut labels = vec![];
        if has_inf { labels.push("infinite-constant".to_string()); }
        if unused { labels.push("unused-declaration".to_string()); }
        if auxlike { labels.push("aux-like-name".to_string()); }
        if dupnames { labels.push("duplicate-or-suffix-names".to_string()); }
        match compile(case) {
            Ok(m) => {
                let src_vars: Vec<String> = if case.mark_all_used {
                    case.vars.iter().map(|v| v.0.clone()).collect()
                } else {
                    referenced
                };
                let wf = well_formed(&m, &case.vars, &src_vars, &names).and_then(|_| {
                    if is_name_stress(case) {
                        check_name_provenance(case, &m)
                    } else {
                        Ok(())
                    }
                });
                match wf {
                    Ok(()) => Outcome::Pass {
                        nontrivial: has_inf || unused || auxlike || dupnames,
                        labels,
                    },
                    Err((sig, detail)) => Outcome::fail(
                        sig,
                        format!("{detail}\ncompiled:\n{}\nsource:\n{}", m, case.text()),
                    ),
                }
            }
            Err(LinearizationError::MissingFiniteBounds { variables, expression, .. }) => {
                if variables.is_empty() {
                    return Outcome::fail(
                        "missing-bounds-names-no-variable",
                        format!("MissingFiniteBounds for {expression} names no variable\nsource:\n{}", case.text()),
                    );
                }
                let model = case.to_rooc();
                let derived = rooc::verif_hooks::analyze_bounds(model.domain(), model.constraints()).variables();
                for v in &variables {
                    if !case.vars.iter().any(|d| &d.0 == v) {
                        return Outcome::fail(
                            "missing-bounds-names-unknown-variable",
                            format!("{v} is not a declared variable\nsource:\n{}", case.text()),
                        );
                    }
                    if let Some((lo, hi)) = derived.get(v) {
                        if lo.is_finite() && hi.is_finite() {
                            return Outcome::fail(
                                "missing-bounds-names-bounded-variable",
                                format!("{v} has derived bounds [{lo}, {hi}]\nsource:\n{}", case.text()),
                            );
                        }
                    }
                }
                labels.push("rejected:MissingFiniteBounds".into());
                Outcome::Pass { nontrivial: false, labels }
            }
            // "... compilation fails with the missing-bounds error ... instead of emitting a
            // constant": an infinite number that the source does not write can only come from a bound
            // that could not be derived, so it has to be reported as such
            Err(e @ LinearizationError::NonFiniteNumber(_)) if !has_inf => Outcome::fail(
                "non-finite-constant-made-from-a-missing-bound",
                format!("{e}
the source holds no infinite constant; expected MissingFiniteBounds
source:
{}", case.text()),
            ),
            Err(e) => Outcome::Skip(format!("rejected:{}", err_kind(&e))),
        }
    }
}
