//! C10 — algebraic rewrites and constant spelling preserve meaning (DESIGN.md §5.10).

use crate::gen::lin::LinCase;
use crate::gen::model::{model_case, test_points, ModelCase, ModelParams, SObj};
use crate::oracle::rat::{big, Big};
use crate::oracle::sem::{Env, SExp};
use crate::props::lincheck::{compile, err_kind, extension, Extension};
use crate::runner::{Outcome, Prop, Tier};
use proptest::prelude::*;
use serde::{Deserialize, Serialize};

pub struct C10;

#[derive(Clone, Debug, Serialize, Deserialize)]
pub enum Case {
    /// one expression tree, rewritten by simplify / flatten
    Tree { exp: SExp, structural: bool },
    /// a model and the positions/variants of the constants that are re-spelled in its twin
    Twin { model: ModelCase, choices: Vec<u8> },
}

// ---------------------------------------------------------------------------------------------
// (a) trees

const LEAVES: [f64; 5] = [0.0, 1.0, -0.0, 2.0, -3.0];

fn leaves() -> Vec<SExp> {
    let mut v: Vec<SExp> = LEAVES.iter().map(|c| SExp::Num(*c)).collect();
    v.push(SExp::var("x"));
    v.push(SExp::var("y"));
    v
}

fn unary(k: usize, e: SExp) -> SExp {
    match k {
        0 => SExp::Neg(e.b()),
        1 => SExp::Not(e.b()),
        _ => SExp::Abs(e.b()),
    }
}

fn binary(k: usize, a: SExp, b: SExp) -> SExp {
    match k {
        0 => SExp::Add(a.b(), b.b()),
        1 => SExp::Sub(a.b(), b.b()),
        2 => SExp::Mul(a.b(), b.b()),
        3 => SExp::Div(a.b(), b.b()),
        4 => SExp::And(vec![a, b]),
        5 => SExp::Or(vec![a, b]),
        6 => SExp::Xor(a.b(), b.b()),
        7 => SExp::Implies(a.b(), b.b()),
        8 => SExp::Iff(a.b(), b.b()),
        9 => SExp::Min(vec![a, b]),
        _ => SExp::Max(vec![a, b]),
    }
}

/// all trees with exactly `n` nodes
fn trees(n: usize, memo: &mut Vec<Vec<SExp>>) -> Vec<SExp> {
    if memo.len() > n {
        return memo[n].clone();
    }
    while memo.len() <= n {
        let k = memo.len();
        let mut out = vec![];
        if k == 0 {
        } else if k == 1 {
            out = leaves();
        } else {
            for u in 0..3 {
                for e in memo[k - 1].clone() {
                    out.push(unary(u, e));
                }
            }
            for l in 1..k - 1 {
                let r = k - 1 - l;
                for b in 0..11 {
                    for a in memo[l].clone() {
                        for c in memo[r].clone() {
                            out.push(binary(b, a.clone(), c));
                        }
                    }
                }
            }
        }
        memo.push(out);
    }
    memo[n].clone()
}

fn tree_strategy() -> BoxedStrategy<SExp> {
    let leaf = prop_oneof![
        4 => (0usize..5).prop_map(|i| SExp::Num(LEAVES[i])),
        1 => prop_oneof![Just(0.5), Just(-1.0), Just(4.0), Just(0.1)].prop_map(SExp::Num),
        5 => prop_oneof![Just("x"), Just("y"), Just("b")].prop_map(SExp::var),
    ];
    leaf.prop_recursive(6, 40, 3, |inner| {
        prop_oneof![
            3 => (0usize..3, inner.clone()).prop_map(|(k, e)| unary(k, e)),
            8 => (0usize..11, inner.clone(), inner.clone()).prop_map(|(k, a, b)| binary(k, a, b)),
            1 => proptest::collection::vec(inner.clone(), 1..=3).prop_map(SExp::And),
            1 => proptest::collection::vec(inner.clone(), 1..=3).prop_map(SExp::Or),
            1 => proptest::collection::vec(inner.clone(), 1..=3).prop_map(SExp::Min),
            1 => proptest::collection::vec(inner, 1..=3).prop_map(SExp::Max),
        ]
    })
    .boxed()
}

fn grid(vars: &[String]) -> Vec<Env> {
    let vals = [0.0, 1.0, -2.0, -1.0, 3.0];
    let n = vars.len().min(3);
    let mut out = vec![];
    for i in 0..vals.len().pow(n as u32) {
        let mut t = i;
        let mut env = Env::new();
        for v in vars.iter().take(n) {
            env.insert(v.clone(), big(vals[t % 5]));
            t /= 5;
        }
        out.push(env);
    }
    out
}

/// does the tree hold a division whose divisor is not a non-zero constant (by reference evaluation)?
fn has_guarded_division(e: &SExp) -> bool {
    let rec = has_guarded_division;
    match e {
        SExp::Div(a, b) => {
            // "constant" is meant semantically: the divisor has one and the same non-zero value at
            // every assignment (e.g. `1 or x` is the constant 1)
            let mut vars = vec![];
            b.vars(&mut vars);
            let mut values: Vec<Option<Big>> = grid(&vars).iter().map(|env| b.eval(env)).collect();
            values.dedup();
            let constant_nonzero = values.len() == 1 && matches!(&values[0], Some(v) if *v != big(0.0));
            !constant_nonzero || rec(a) || rec(b)
        }
        SExp::Num(_) | SExp::Var(_) => false,
        SExp::Neg(a) | SExp::Abs(a) | SExp::Not(a) => rec(a),
        SExp::Add(a, b) | SExp::Sub(a, b) | SExp::Mul(a, b) | SExp::Xor(a, b) | SExp::Implies(a, b) | SExp::Iff(a, b) => rec(a) || rec(b),
        SExp::Min(v) | SExp::Max(v) | SExp::And(v) | SExp::Or(v) => v.iter().any(rec),
    }
}

/// The logic operators are defined on 0/1 values: an assignment is in the domain of a tree only
/// if every non-constant operand of every logic operator evaluates to 0 or 1 there. (Constants
/// may be any number, the language reads non-zero as true.)
fn well_sorted(e: &SExp, env: &Env) -> bool {
    let operand_ok = |x: &SExp| -> bool {
        let mut vars = vec![];
        x.vars(&mut vars);
        if vars.is_empty() {
            return true;
        }
        match x.eval(env) {
            Some(v) => v == big(0.0) || v == big(1.0),
            None => true,
        }
    };
    let rec = |x: &SExp| well_sorted(x, env);
    match e {
        SExp::Num(_) | SExp::Var(_) => true,
        SExp::Neg(a) | SExp::Abs(a) => rec(a),
        SExp::Add(a, b) | SExp::Sub(a, b) | SExp::Mul(a, b) | SExp::Div(a, b) => rec(a) && rec(b),
        SExp::Min(v) | SExp::Max(v) => v.iter().all(rec),
        SExp::Not(a) => operand_ok(a) && rec(a),
        SExp::Xor(a, b) | SExp::Implies(a, b) | SExp::Iff(a, b) => operand_ok(a) && operand_ok(b) && rec(a) && rec(b),
        SExp::And(v) | SExp::Or(v) => v.iter().all(|x| operand_ok(x) && rec(x)),
    }
}

/// Constant folding inside rooc happens in f64, so a rewritten tree may differ from the original by
/// a rounding error (`(x + -1) / 0.1` becomes `x / 0.1 + -10`, and 0.1 is not 1/10 in binary). A
/// logic operator turns such an error into 0 against 1. An assignment at which an operand of a logic
/// operator of the rewritten tree is within 1e-9 of 0 or 1 without being 0 or 1 is decided by that
/// rounding and is not compared (the operands themselves still are, wherever they occur outside a
/// logic operator, and at every other assignment).
fn logic_operand_decided_by_rounding(e: &SExp, env: &Env) -> bool {
    let near = |x: &SExp| -> bool {
        let mut vars = vec![];
        x.vars(&mut vars);
        if vars.is_empty() {
            return false;
        }
        match x.eval(env) {
            Some(v) => {
                let dist = |t: f64| {
                    let t = big(t);
                    if v > t { v.clone() - t } else { t - v.clone() }
                };
                let (d0, d1) = (dist(0.0), dist(1.0));
                (d0 != big(0.0) && d0 < big(1e-9)) || (d1 != big(0.0) && d1 < big(1e-9))
            }
            None => false,
        }
    };
    let rec = |x: &SExp| logic_operand_decided_by_rounding(x, env);
    match e {
        SExp::Num(_) | SExp::Var(_) => false,
        SExp::Neg(a) | SExp::Abs(a) => rec(a),
        SExp::Add(a, b) | SExp::Sub(a, b) | SExp::Mul(a, b) | SExp::Div(a, b) => rec(a) || rec(b),
        SExp::Min(v) | SExp::Max(v) => v.iter().any(rec),
        SExp::Not(a) => near(a) || rec(a),
        SExp::Xor(a, b) | SExp::Implies(a, b) | SExp::Iff(a, b) => near(a) || near(b) || rec(a) || rec(b),
        SExp::And(v) | SExp::Or(v) => v.iter().any(|x| near(x) || rec(x)),
    }
}

fn has_division(e: &SExp) -> bool {
    let rec = has_division;
    match e {
        SExp::Div(..) => true,
        SExp::Num(_) | SExp::Var(_) => false,
        SExp::Neg(a) | SExp::Abs(a) | SExp::Not(a) => rec(a),
        SExp::Add(a, b) | SExp::Sub(a, b) | SExp::Mul(a, b) | SExp::Xor(a, b) | SExp::Implies(a, b) | SExp::Iff(a, b) => rec(a) || rec(b),
        SExp::Min(v) | SExp::Max(v) | SExp::And(v) | SExp::Or(v) => v.iter().any(rec),
    }
}

fn check_tree(exp: &SExp, structural: bool) -> Outcome {
    let original = exp.to_rooc(structural);
    let simplified = original.simplify();
    let flattened = original.clone().flatten();
    let both = original.clone().flatten().simplify();
    let json = |e: &rooc::model_transformer::Exp| serde_json::to_string(e).unwrap_or_default();
    let mut fails: Vec<(String, String)> = vec![];
    let text = crate::gen::text::print_min(exp);
    // idempotence
    let twice = simplified.simplify();
    if json(&twice) != json(&simplified) {
        fails.push((
            "simplify-not-idempotent".into(),
            format!("{text}\n once : {simplified}\n twice: {twice}"),
        ));
    }
    let mut vars = vec![];
    exp.vars(&mut vars);
    let mut changed = false;
    for (what, rewritten) in [("simplify", &simplified), ("flatten", &flattened), ("flatten+simplify", &both)] {
        let r = SExp::from_rooc(rewritten);
        if json(rewritten) != json(&original) {
            changed = true;
        }
        if has_guarded_division(exp) && !has_division(&r) {
            fails.push((
                format!("{what}:division-by-zero-or-variable-rewritten-away"),
                format!("{text}\n rewritten: {rewritten}"),
            ));
            continue;
        }
        for env in grid(&vars) {
            let Some(want) = exp.eval(&env) else { continue };
            if !well_sorted(exp, &env) {
                continue;
            }
            // constant folding inside rooc happens in f64
            let close = |a: &Big, b: &Big| {
                let d = if a > b { a - b } else { b - a };
                let m = if *a < big(0.0) { -a.clone() } else { a.clone() };
                d <= big(1e-12) * (m + big(1.0))
            };
            match r.eval(&env) {
                Some(got) if close(&got, &want) => {}
                Some(_) if logic_operand_decided_by_rounding(&r, &env) => {}
                got => {
                    fails.push((
                        format!("{what}:value-changed"),
                        format!(
                            "{text}\n rewritten: {rewritten}\n at {}: original {want}, rewritten {:?}",
                            crate::gen::model::env_text(&env),
                            got.map(|g: Big| g.to_string())
                        ),
                    ));
                    break;
                }
            }
        }
    }
    Outcome::from_failures(fails, changed, vec![])
}

// ---------------------------------------------------------------------------------------------
// (b) twins

/// Re-spells the k-th eligible constant with variant `choices[k]` (0 = keep).
fn respell(e: &SExp, choices: &[u8], k: &mut usize) -> SExp {
    let r = |x: &SExp, k: &mut usize| respell(x, choices, k);
    let pick = |k: &mut usize| {
        let c = choices.get(*k).copied().unwrap_or(0);
        *k += 1;
        c
    };
    let split = |c: f64| -> SExp {
        let a = c.floor();
        let b = c - a;
        if b == 0.0 {
            SExp::Add(SExp::Num(a - 1.0).b(), SExp::Num(1.0).b())
        } else {
            SExp::Add(SExp::Num(a).b(), SExp::Num(b).b())
        }
    };
    let spelled = |c: f64, variant: u8| -> SExp {
        match variant {
            1 => split(c),
            2 if c < 0.0 => SExp::Neg(SExp::Num(-c).b()),
            3 if c < 0.0 => SExp::Sub(SExp::Num(0.0).b(), SExp::Num(-c).b()),
            4 => SExp::Mul(SExp::Num(c).b(), SExp::Num(1.0).b()),
            5 => SExp::Div(SExp::Num(c * 2.0).b(), SExp::Num(2.0).b()),
            _ => SExp::Num(c),
        }
    };
    match e {
        SExp::Mul(a, b) => match (&**a, &**b) {
            (SExp::Num(c), other) | (other, SExp::Num(c)) if !matches!(other, SExp::Num(_)) => {
                let v = pick(k);
                let inner = r(other, k);
                let c = *c;
                match v {
                    0 => SExp::Mul(SExp::Num(c).b(), inner.b()),
                    6 => SExp::Mul(inner.b(), SExp::Num(c).b()),
                    7 if c < 0.0 => SExp::Neg(SExp::Mul(SExp::Num(-c).b(), inner.b()).b()),
                    8 if c != 0.0 && (1.0 / c) * c == 1.0 && (1.0 / c).fract() == 0.0 || c.abs() == 0.5 || c.abs() == 0.25 => {
                        SExp::Div(inner.b(), SExp::Num(1.0 / c).b())
                    }
                    v => SExp::Mul(spelled(c, v).b(), inner.b()),
                }
            }
            _ => SExp::Mul(r(a, k).b(), r(b, k).b()),
        },
        SExp::Num(c) => {
            let v = pick(k);
            spelled(*c, v)
        }
        SExp::Var(_) => e.clone(),
        // a unary minus is the constant -1 written without digits
        SExp::Neg(a) if !matches!(**a, SExp::Num(_)) => {
            let v = pick(k);
            let inner = r(a, k);
            match v {
                1 | 4 | 7 => SExp::Mul(SExp::Num(-1.0).b(), inner.b()),
                2 | 5 => SExp::Sub(SExp::Num(0.0).b(), inner.b()),
                8 => SExp::Mul(inner.b(), SExp::Num(-1.0).b()),
                _ => SExp::Neg(inner.b()),
            }
        }
        SExp::Neg(a) => SExp::Neg(r(a, k).b()),
        SExp::Abs(a) => SExp::Abs(r(a, k).b()),
        SExp::Not(a) => SExp::Not(r(a, k).b()),
        SExp::Add(a, b) => SExp::Add(r(a, k).b(), r(b, k).b()),
        SExp::Sub(a, b) => SExp::Sub(r(a, k).b(), r(b, k).b()),
        // divisors stay as they are (a re-spelled divisor is still a constant, but keep it simple)
        SExp::Div(a, b) => SExp::Div(r(a, k).b(), b.clone()),
        SExp::Xor(a, b) => SExp::Xor(r(a, k).b(), r(b, k).b()),
        SExp::Implies(a, b) => SExp::Implies(r(a, k).b(), r(b, k).b()),
        SExp::Iff(a, b) => SExp::Iff(r(a, k).b(), r(b, k).b()),
        SExp::Min(v) => SExp::Min(v.iter().map(|x| r(x, k)).collect()),
        SExp::Max(v) => SExp::Max(v.iter().map(|x| r(x, k)).collect()),
        // logic constants are not numbers to re-spell
        SExp::And(v) => SExp::And(v.clone()),
        SExp::Or(v) => SExp::Or(v.clone()),
    }
}

pub fn twin_of(model: &ModelCase, choices: &[u8]) -> ModelCase {
    let mut k = 0;
    let mut t = model.clone();
    for c in t.cons.iter_mut() {
        if c.bare {
            continue;
        }
        // comparisons of logic values with 0/1 keep their literal constant
        let logicish = |e: &SExp| matches!(e, SExp::Not(_) | SExp::And(_) | SExp::Or(_) | SExp::Xor(..) | SExp::Implies(..) | SExp::Iff(..));
        if logicish(&c.lhs) || logicish(&c.rhs) {
            continue;
        }
        c.lhs = respell(&c.lhs, choices, &mut k);
        c.rhs = respell(&c.rhs, choices, &mut k);
    }
    if let SObj::Min(e) | SObj::Max(e) = &mut t.obj {
        *e = respell(e, choices, &mut k);
    }
    t
}

fn check_twin(model: &ModelCase, choices: &[u8]) -> Outcome {
    let twin = twin_of(model, choices);
    if twin.text() == model.text() {
        return Outcome::Skip("twin identical".into());
    }
    let (a, b) = (compile(model), compile(&twin));
    let ctx = || format!("base:\n{}\ntwin:\n{}", model.text(), twin.text());
    match (&a, &b) {
        (Err(ea), Err(eb)) => {
            if err_kind(ea) != err_kind(eb) {
                return Outcome::fail(
                    "twins-rejected-differently",
                    format!("base: {ea}\ntwin: {eb}\n{}", ctx()),
                );
            }
            return Outcome::Pass { nontrivial: false, labels: vec![format!("both-rejected:{}", err_kind(ea))] };
        }
        (Ok(_), Err(e)) => return Outcome::fail(format!("only-twin-rejected:{}", err_kind(e)), format!("{e}\n{}", ctx())),
        (Err(e), Ok(_)) => return Outcome::fail(format!("only-base-rejected:{}", err_kind(e)), format!("{e}\n{}", ctx())),
        _ => {}
    }
    let (la, lb) = (LinCase::from_rooc(a.as_ref().unwrap()), LinCase::from_rooc(b.as_ref().unwrap()));
    let mut fails = vec![];
    let mut mixed = (false, false);
    for env in test_points(model, 40) {
        let with_obj = !matches!(model.obj, SObj::Satisfy);
        let mut ea = extension(&la, &model.vars, &env, None, with_obj);
        let mut eb = extension(&lb, &model.vars, &env, None, with_obj);
        if matches!(ea, Extension::No) != matches!(eb, Extension::No) {
            // discount f64 rounding: the re-spelled constant may round differently
            ea = extension(&la, &model.vars, &env, Some(1e-9), with_obj);
            eb = extension(&lb, &model.vars, &env, Some(1e-9), with_obj);
        }
        match (&ea, &eb) {
            (Extension::No, Extension::No) => mixed.1 = true,
            (Extension::Yes(x), Extension::Yes(y)) => {
                mixed.0 = true;
                if let (Some(x), Some(y)) = (x, y) {
                    let d = if x > y { x - y } else { y - x };
                    if d > big(1e-6) * (big(1.0) + if *x < big(0.0) { -x.clone() } else { x.clone() }) {
                        fails.push((
                            "twins-objective-differs".to_string(),
                            format!("at {{{}}}: base {x}, twin {y}\n{}", crate::gen::model::env_text(&env), ctx()),
                        ));
                        break;
                    }
                }
            }
            (Extension::Unbounded, Extension::Unbounded) => {}
            _ => {
                fails.push((
                    "twins-feasible-sets-differ".to_string(),
                    format!(
                        "at {{{}}}: base {:?}, twin {:?}\n{}\nbase compiled:\n{}\ntwin compiled:\n{}",
                        crate::gen::model::env_text(&env), ea, eb, ctx(), a.as_ref().unwrap(), b.as_ref().unwrap()
                    ),
                ));
                break;
            }
        }
    }
    Outcome::from_failures(fails, model.has_nonaffine() && mixed.0 && mixed.1, vec![])
}

const PARAMS: ModelParams = ModelParams { max_vars: 3, max_cons: 3, depth: 3, inexact: false, unbounded_decl: true, objective: true };

impl Prop for C10 {
    type Case = Case;
    fn id(&self) -> &'static str {
        "C10"
    }
    fn strategy(&self, _tier: Tier) -> BoxedStrategy<Case> {
        prop_oneof![
            3 => (tree_strategy(), any::<bool>()).prop_map(|(exp, structural)| Case::Tree { exp, structural }),
            2 => (model_case(PARAMS), proptest::collection::vec(0u8..9, 12)).prop_map(|(model, choices)| Case::Twin { model, choices }),
        ]
        .boxed()
    }
    fn budget(&self, tier: Tier) -> usize {
        match tier {
            Tier::Quick => 30_000,
            Tier::Thorough => 1_000_000,
        }
    }
    fn fixed_cases(&self, tier: Tier) -> Vec<Case> {
        let mut memo = vec![];
        let max = if tier == Tier::Quick { 4 } else { 5 };
        let mut v = vec![];
        for n in 1..=max {
            for exp in trees(n, &mut memo) {
                v.push(Case::Tree { exp, structural: n % 2 == 0 });
            }
        }
        // directed twins
        use crate::gen::lin::Dom;
        use crate::gen::model::SCons;
        use crate::oracle::sem::Cmp;
        let x = SExp::var("x0");
        let base = ModelCase {
            vars: vec![("x0".into(), Dom::Real(None, None)), ("x1".into(), Dom::Real(Some(-2.0), Some(3.0)))],
            cons: vec![
                SCons { name: String::new(), lhs: SExp::Mul(SExp::Num(-2.0).b(), x.clone().b()), rel: Cmp::Le, rhs: SExp::Num(4.0), bare: false },
                SCons { name: String::new(), lhs: SExp::Mul(SExp::Num(2.0).b(), x.clone().b()), rel: Cmp::Le, rhs: SExp::Num(6.0), bare: false },
                SCons { name: String::new(), lhs: SExp::Abs(x.clone().b()), rel: Cmp::Ge, rhs: SExp::var("x1"), bare: false },
            ],
            obj: SObj::Max(SExp::Abs(x.b())),
            structural_logic: true,
            mark_all_used: false,
            point_seed: 5,
        };
        for v1 in 0..9u8 {
            for v2 in 0..9u8 {
                v.push(Case::Twin { model: base.clone(), choices: vec![v1, 0, v2, 0, 0, 0] });
            }
        }
        // a unary minus over a sum with a constant, against -1 * (..), (0 - (..)), (..) * -1
        for (rel, inner, rhs, obj_max) in [
            (Cmp::Ge, SExp::Sub(SExp::var("x0").b(), SExp::Num(3.0).b()), -8.0, true),
            (Cmp::Le, SExp::Add(SExp::var("x0").b(), SExp::Num(3.0).b()), -5.0, false),
            (Cmp::Ge, SExp::Add(SExp::Num(2.0).b(), SExp::Mul(SExp::Num(2.0).b(), SExp::var("x0").b()).b()), -12.0, true),
        ] {
            let obj = if obj_max { SObj::Max(SExp::var("x0")) } else { SObj::Min(SExp::var("x0")) };
            let m = ModelCase {
                vars: vec![("x0".into(), Dom::NonNeg(0.0, Some(16.0)))],
                cons: vec![SCons { name: String::new(), lhs: SExp::Neg(inner.b()), rel, rhs: SExp::Num(rhs), bare: false }],
                obj,
                structural_logic: true,
                mark_all_used: false,
                point_seed: 9,
            };
            for v1 in [1u8, 2, 8] {
                v.push(Case::Twin { model: m.clone(), choices: vec![v1, 0, 0, 0, 0, 0] });
            }
        }
        v
    }
    fn exhaustive_stratum(&self, tier: Tier) -> Option<String> {
        Some(format!(
            "all expression trees with <= {} nodes over the leaves {{0, 1, -0, 2, -3, x, y}}, 3 unary and 11 binary operators",
            if tier == Tier::Quick { 4 } else { 5 }
        ))
    }
    fn canon(&self, c: &Case) -> String {
        match c {
            Case::Tree { exp, structural } => serde_json::to_string(&format!("{} [{}]", crate::gen::text::print_min(exp), structural)).unwrap(),
            Case::Twin { model, choices } => serde_json::to_string(&format!("{} // {:?}", model.text(), choices)).unwrap(),
        }
    }
    fn rule(&self) -> String {
        "(a) expression trees: exhaustively all trees with <= 4 (thorough 5) nodes over {0, 1, -0, 2, -3, x, y} and all operators (neg, not, abs, + - * /, and, or, xor, implies, iff, min, max), random trees to depth 6 incl. n-ary blocks, each in the structural and the BinOp/UnOp encoding; Exp::simplify, Exp::flatten and flatten+simplify are compared with the original at every assignment over {-2,-1,0,1,3}^k where the original is defined (exact rational evaluation by the harness), simplify must be idempotent (JSON equality), and a division by zero or by a non-constant must survive. (b) twin models: a generated model and a copy whose constants and coefficients are re-spelled (x*c, (c1+c2)*x, -(c)*x, (0-c)*x, -(c*x), x/(1/c), c*1, 2c/2, and a unary minus over a sub-expression as -1*(..), (..)*-1, 0-(..)): both compile or both fail with the same error kind, and at the shared test points both linear models admit the same assignments with the same best objective. Non-trivial = (a) the rewrite changed the tree, (b) the model has a non-affine operator and the test set holds feasible and infeasible points. Distinct = distinct case text.".into()
    }
    fn check(&self, case: &Case) -> Outcome {
        match case {
            Case::Tree { exp, structural } => check_tree(exp, *structural),
            Case::Twin { model, choices } => check_twin(model, choices),
        }
    }
}
