//! C17 — LP export denotes the same model (DESIGN.md §5.17).

use crate::gen::lin::{lin_case, Dom, LinCase, LinParams, Sense, R};
use crate::oracle::lpread::{parse, Rel};
use crate::runner::{Outcome, Prop, Tier};
use proptest::prelude::*;

pub struct C17;

/// A linear model plus, per row, whether its relation is the strict one (`<` for `<=`, `>` for
/// `>=`): the LP format has no strict relations, the export has to keep the direction.
#[derive(Clone, Debug, serde::Serialize, serde::Deserialize)]
pub struct Case17 {
    #[serde(flatten)]
    lin: LinCase,
    #[serde(default)]
    strict: u8,
}

impl Case17 {
    fn is_strict(&self, i: usize) -> bool {
        i < 8 && self.strict >> i & 1 == 1 && self.lin.rows[i].rel != R::Eq
    }
}

const PARAMS: LinParams = LinParams {
    max_vars: 5,
    max_rows: 6,
    coef_range: 6,
    quarters: true,
    allow_discrete: true,
    allow_satisfy: true,
    allow_offset: true,
    exotic_names: false,
    continuous_only: false,
};

fn decorate(mut c: LinCase, bits: u64) -> LinCase {
    // magnitudes, negative zero, row names that look generated
    let pick = |s: u32, n: u64| ((bits >> s) % n) as usize;
    if !c.rows.is_empty() && c.n() > 0 {
        let r = pick(0, c.rows.len() as u64);
        let j = pick(4, c.n() as u64);
        c.rows[r].coef[j] = match pick(8, 13) {
            0 => 1e-9,
            // below every "float noise" tolerance, down to the smallest positive f64
            9 => 5e-10,
            10 => -2.5e-12,
            11 => 1e-300,
            12 => -5e-324,
            1 => -2.5e-7,
            2 => 1e9,
            3 => -3e8,
            4 => -0.0,
            // whole numbers beyond the 64-bit integers and with more digits than an f64 holds
            5 => 1e19,
            6 => -3e20,
            7 => 9007199254740993.0 * 1024.0,
            _ => c.rows[r].coef[j],
        };
        if bits >> 12 & 1 == 1 {
            c.rows[r].rhs = [-0.0, 1e-9, -1e9, 12345.678, 3e20, -1e30, 9223372036854775808.0][pick(13, 7)];
        }
    }
    for (i, r) in c.rows.iter_mut().enumerate() {
        match (bits >> (16 + 3 * i)) & 7 {
            0 => r.name = format!("c{}", i + 2), // collides with the name generated for the next unnamed row
            1 => r.name = format!("c{}", i + 1),
            2 => r.name = "c1".into(),
            3 => r.name = String::new(),
            _ => {}
        }
    }
    if c.n() > 0 && bits >> 40 & 1 == 1 {
        let j = pick(41, c.n() as u64);
        c.obj[j] = [1e-9, -1e9, -0.0, 0.5, 1e19, -1e25, -2.5e-12, 3e-200][pick(44, 8)];
    }
    if bits >> 46 & 1 == 1 {
        c.offset = [-0.0, -2.5, 1e9, 1e-9, -1e19, 1e30][pick(47, 6)];
    }
    // user names must be unique for the comparison to be meaningful (duplicates are the user's own)
    let mut seen = std::collections::BTreeSet::new();
    for r in c.rows.iter_mut() {
        if !r.name.is_empty() && !seen.insert(r.name.clone()) {
            r.name = String::new();
        }
    }
    c
}

impl Prop for C17 {
    type Case = Case17;
    fn id(&self) -> &'static str {
        "C17"
    }
    fn strategy(&self, _tier: Tier) -> BoxedStrategy<Case17> {
        (lin_case(PARAMS), any::<u64>(), prop_oneof![2 => Just(0u8), 1 => any::<u8>()])
            .prop_map(|(c, b, strict)| Case17 { lin: decorate(c, b), strict })
            .boxed()
    }
    fn budget(&self, tier: Tier) -> usize {
        match tier {
            Tier::Quick => 20_000,
            Tier::Thorough => 500_000,
        }
    }
    fn canon(&self, c: &Case17) -> String {
        format!("{} strict={}", serde_json::to_string(&c.lin.pretty()).unwrap(), (0..c.lin.rows.len()).filter(|i| c.is_strict(*i)).count())
    }
    fn rule(&self) -> String {
        "linear models through the public API: 0-5 variables of every domain kind (free, half-bounded, bounded, fixed, negative bounds, Boolean, integer range), 0-6 rows with integer / quarter / 1e-9 / 5e-10 .. 5e-324 / 1e9 / 1e19 .. 1e30 (beyond the 64-bit integers) / negative-zero coefficients and right-hand sides, zero rows, named and unnamed rows where user names equal the names the exporter generates (c1, c2, ...), offsets of both signs and magnitudes, min / max / satisfy. to_lp_format() is read by an independent CPLEX-LP reader and compared with the model: sense (satisfy -> minimise), objective coefficients and constant, every row in order (user name, coefficients, relation - a strict < or > row must come out as <= or >= of the same direction -, right-hand side; numbers must read back as the identical f64), all row names pairwise distinct, effective bounds after the format's defaults equal to the domain, Binary / General marks equal to Boolean / IntegerRange. Non-trivial = a variable with non-default bounds, a row led by a negative coefficient, and an offset or an unnamed row. Distinct = distinct model text.".into()
    }
    fn check(&self, c17: &Case17) -> Outcome {
        let case = &c17.lin;
        let model = case.to_rooc_with(|i, r| match (r, c17.is_strict(i)) {
            (R::Le, true) => rooc::Comparison::Less,
            (R::Ge, true) => rooc::Comparison::Greater,
            _ => r.to_rooc(),
        });
        let text = model.to_lp_format();
        let strict_rows: Vec<usize> = (0..case.rows.len()).filter(|i| c17.is_strict(*i)).collect();
        let ctx = |s: String| format!("{s}\nLP text:\n{text}\nmodel: {}\nrows with a strict relation: {strict_rows:?}", case.pretty());
        let lp = match parse(&text) {
            Ok(f) => f,
            Err(e) => return Outcome::fail("lp-text-not-readable", ctx(e)),
        };
        let mut fails: Vec<(String, String)> = vec![];
        let want_max = case.sense == Sense::Max;
        if lp.maximize != want_max {
            fails.push(("sense".into(), ctx(format!("model {:?}, LP maximize = {}", case.sense, lp.maximize))));
        }
        // objective
        for (j, (name, _)) in case.vars.iter().enumerate() {
            let got = lp.objective.get(name).copied().unwrap_or(0.0);
            if got != case.obj[j] && !(got == 0.0 && case.obj[j] == 0.0) {
                fails.push(("objective-coefficient".into(), ctx(format!("{name}: model {}, LP {got}", case.obj[j]))));
                break;
            }
        }
        for k in lp.objective.keys() {
            if !case.vars.iter().any(|v| &v.0 == k) {
                fails.push(("objective-unknown-variable".into(), ctx(k.clone())));
            }
        }
        if lp.obj_constant != case.offset && !(lp.obj_constant == 0.0 && case.offset == 0.0) {
            fails.push(("objective-constant".into(), ctx(format!("model offset {}, LP constant {}", case.offset, lp.obj_constant))));
        }
        // rows
        if lp.rows.len() != case.rows.len() {
            fails.push(("row-count".into(), ctx(format!("model {}, LP {}", case.rows.len(), lp.rows.len()))));
        } else {
            let mut names = std::collections::BTreeSet::new();
            for (i, (r, l)) in case.rows.iter().zip(&lp.rows).enumerate() {
                match &l.name {
                    None => fails.push(("row-without-name".into(), ctx(format!("row {i}")))),
                    Some(n) => {
                        if !names.insert(n.clone()) {
                            fails.push(("duplicate-row-name".into(), ctx(format!("{n:?} is used by two rows"))));
                        }
                        if !r.name.is_empty() && &r.name != n {
                            fails.push(("user-row-name-changed".into(), ctx(format!("row {i}: {:?} -> {n:?}", r.name))));
                        }
                    }
                }
                let rel = match r.rel {
                    R::Le => Rel::Le,
                    R::Ge => Rel::Ge,
                    R::Eq => Rel::Eq,
                };
                if l.rel != rel {
                    fails.push(("row-relation".into(), ctx(format!("row {i}: model {:?}, LP {:?}", r.rel, l.rel))));
                }
                // a constant on the left-hand side moves to the right
                let rhs = l.rhs - l.constant;
                if rhs != r.rhs && !(rhs == 0.0 && r.rhs == 0.0) {
                    fails.push(("row-right-hand-side".into(), ctx(format!("row {i}: model {}, LP {rhs}", r.rhs))));
                }
                for (j, (name, _)) in case.vars.iter().enumerate() {
                    let got = l.coefs.get(name).copied().unwrap_or(0.0);
                    if got != r.coef[j] && !(got == 0.0 && r.coef[j] == 0.0) {
                        fails.push(("row-coefficient".into(), ctx(format!("row {i}, {name}: model {}, LP {got}", r.coef[j]))));
                        break;
                    }
                }
                if l.coefs.keys().any(|k| !case.vars.iter().any(|v| &v.0 == k)) {
                    fails.push(("row-unknown-variable".into(), ctx(format!("row {i}: {:?}", l.coefs.keys().collect::<Vec<_>>()))));
                }
            }
        }
        // domains
        for (name, dom) in &case.vars {
            let (lo, hi) = dom.bounds_f64();
            let mentioned = lp.variables.contains(name);
            let default_domain = lo == 0.0 && hi == f64::INFINITY && !dom.is_discrete();
            if !mentioned {
                if !default_domain {
                    fails.push(("variable-with-non-default-range-has-no-entry".into(), ctx(format!("{name}: {dom:?}"))));
                }
                continue;
            }
            let (glo, ghi) = lp.effective_bounds(name);
            if glo != lo || ghi != hi {
                fails.push(("bounds".into(), ctx(format!("{name}: model [{lo}, {hi}], LP [{glo}, {ghi}]"))));
            }
            let (bin, gen) = (lp.binaries.contains(name), lp.generals.contains(name));
            let ok = match dom {
                Dom::Bool => bin && !gen,
                Dom::Int(..) => gen && !bin,
                _ => !bin && !gen,
            };
            if !ok {
                fails.push(("integrality-mark".into(), ctx(format!("{name}: {dom:?}, binary {bin}, general {gen}"))));
            }
        }
        // one failure per kind
        fails.dedup_by(|a, b| a.0 == b.0);
        let mut seen = std::collections::BTreeSet::new();
        fails.retain(|f| seen.insert(f.0.clone()));
        let nondefault = case.vars.iter().any(|v| {
            let (lo, hi) = v.1.bounds_f64();
            !(lo == 0.0 && hi == f64::INFINITY)
        });
        let neg_lead = case.rows.iter().any(|r| r.coef.iter().find(|c| **c != 0.0).map(|c| *c < 0.0).unwrap_or(false));
        let extra = case.offset != 0.0 || case.rows.iter().any(|r| r.name.is_empty());
        Outcome::from_failures(fails, nondefault && neg_lead && extra, vec![])
    }
}
