pub mod c04;
pub mod solvers;
pub mod c05;

use crate::runner::{run, RunArgs};

pub fn dispatch(id: &str, args: &RunArgs) -> i32 {
    match id {
        "C04" => run(&c04::C04, args),
        "C05" => run(&c05::C05, args),
        _ => {
            eprintln!("unknown property {id}");
            2
        }
    }
}
