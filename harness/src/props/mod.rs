pub mod c01;
pub mod c02;
pub mod c03;
pub mod c04;
pub mod c06;
pub mod c07;
pub mod c08;
pub mod c09;
pub mod c10;
pub mod c11;
pub mod c12;
pub mod c13;
pub mod c14;
pub mod c15;
pub mod c16;
pub mod c17;
pub mod c18;
pub mod c19;
pub mod c20;
pub mod lincheck;
pub mod macro_table;
pub mod solvers;
pub mod stages;
pub mod c05;

use crate::runner::{run, RunArgs};

pub fn dispatch(id: &str, args: &RunArgs) -> i32 {
    match id {
        "C01" => run(&c01::C01, args),
        "C02" => run(&c02::C02, args),
        "C06" => run(&c06::C06, args),
        "C07" => run(&c07::C07, args),
        "C08" => run(&c08::C08, args),
        "C09" => run(&c09::C09, args),
        "C10" => run(&c10::C10, args),
        "C11" => run(&c11::C11, args),
        "C12" => run(&c12::C12, args),
        "C13" => run(&c13::C13, args),
        "C14" => run(&c14::C14, args),
        "C15" => run(&c15::C15, args),
        "C16" => run(&c16::C16, args),
        "C17" => run(&c17::C17, args),
        "C18" => run(&c18::C18, args),
        "C19" => run(&c19::C19, args),
        "C20" => run(&c20::C20, args),
        "C03" => run(&c03::C03, args),
        "C04" => run(&c04::C04, args),
        "C05" => run(&c05::C05, args),
        _ => {
            eprintln!("unknown property {id}");
            2
        }
    }
}
