//! The five built-in solver entry points, normalised to one answer shape.

use crate::gen::lin::{Dom, LinCase};
use rooc::{
    auto_solver, solve_milp_lp_problem, solve_real_lp_problem_clarabel,
    solve_real_lp_problem_micro_lp, solve_real_lp_problem_slow_simplex, LinearModel, LpSolution,
    MILPValue, SolutionStatus, SolverError,
};

#[derive(Clone, Copy, Debug, PartialEq, Eq)]
pub enum Which {
    Milp,
    Auto,
    RealMicro,
    Clarabel,
    Tableau,
    /// the MILP entry point with options that stop it early: whatever it returns as `Ok` is held to
    /// the same certificate (C04); verdicts of these runs are not compared with the oracle (C05)
    MilpTimeZero,
    MilpOneNode,
    MilpThreeNodes,
}

/// the entry points run under a limit (time limit 0, deterministic node limits through the hook)
pub const LIMITED: [Which; 3] = [Which::MilpTimeZero, Which::MilpOneNode, Which::MilpThreeNodes];

pub const ALL: [Which; 5] = [
    Which::Milp,
    Which::Auto,
    Which::RealMicro,
    Which::Clarabel,
    Which::Tableau,
];

impl Which {
    pub fn name(self) -> &'static str {
        match self {
            Which::Milp => "milp",
            Which::Auto => "auto",
            Which::RealMicro => "real_microlp",
            Which::Clarabel => "clarabel",
            Which::Tableau => "tableau",
            Which::MilpTimeZero => "milp-time-limit-0",
            Which::MilpOneNode => "milp-node-limit-1",
            Which::MilpThreeNodes => "milp-node-limit-3",
        }
    }
    pub fn simplex_based(self) -> bool {
        !matches!(self, Which::Clarabel)
    }
}

#[derive(Clone, Debug)]
pub struct Sol {
    pub names: Vec<String>,
    pub values: Vec<f64>,
    /// per entry: was the value typed as Bool / Int / Real
    pub kinds: Vec<char>,
    pub value: f64,
    pub constraints: Vec<(String, f64)>,
    pub status: SolutionStatus,
    pub shadow: Vec<(String, f64)>,
    /// value_of(name) for every assignment entry
    pub by_name: Vec<Option<f64>>,
}

#[derive(Clone, Debug)]
pub enum Ans {
    Ok(Sol),
    Infeasible,
    Unbounded,
    /// typed rejection: the entry point does not accept this model
    Rejected(String),
    /// any other error
    Other(String),
    /// the call did not return within the harness budget
    Hang,
}

fn from_milp(s: LpSolution<MILPValue>) -> Sol {
    let names: Vec<String> = s.assignment().iter().map(|a| a.name.clone()).collect();
    let kinds = s
        .assignment()
        .iter()
        .map(|a| match a.value {
            MILPValue::Bool(_) => 'b',
            MILPValue::Int(_) => 'i',
            MILPValue::Real(_) => 'r',
        })
        .collect();
    let values = s.assignment().iter().map(|a| f64::from(a.value)).collect();
    let by_name = names.iter().map(|n| s.value_of(n).map(f64::from)).collect();
    Sol {
        names,
        values,
        kinds,
        value: s.value(),
        constraints: s.constraints().iter().map(|(k, v)| (k.clone(), *v)).collect(),
        status: s.status(),
        shadow: s.shadow_prices().iter().map(|(k, v)| (k.clone(), *v)).collect(),
        by_name,
    }
}

fn from_real(s: LpSolution<f64>) -> Sol {
    let names: Vec<String> = s.assignment().iter().map(|a| a.name.clone()).collect();
    let by_name = names.iter().map(|n| s.value_of(n)).collect();
    Sol {
        kinds: names.iter().map(|_| 'r').collect(),
        values: s.assignment().iter().map(|a| a.value).collect(),
        names,
        value: s.value(),
        constraints: s.constraints().iter().map(|(k, v)| (k.clone(), *v)).collect(),
        status: s.status(),
        shadow: s.shadow_prices().iter().map(|(k, v)| (k.clone(), *v)).collect(),
        by_name,
    }
}

fn map_err(e: SolverError) -> Ans {
    match e {
        SolverError::Infeasible => Ans::Infeasible,
        SolverError::Unbounded => Ans::Unbounded,
        SolverError::InvalidDomain { .. } => Ans::Rejected("InvalidDomain".into()),
        SolverError::UnimplementedOptimizationType { .. } => {
            Ans::Rejected("UnimplementedOptimizationType".into())
        }
        SolverError::UnavailableComparison { .. } => Ans::Rejected("UnavailableComparison".into()),
        SolverError::Other(s) => Ans::Other(format!("Other({s})")),
        SolverError::LimitReached => Ans::Other("LimitReached".into()),
        SolverError::DidNotSolve => Ans::Other("DidNotSolve".into()),
        SolverError::TooLarge { name, value } => Ans::Other(format!("TooLarge({name},{value})")),
    }
}

/// Number of solver threads abandoned because they never returned.
pub static LEAKED: std::sync::atomic::AtomicUsize = std::sync::atomic::AtomicUsize::new(0);

/// Runs one entry point on a helper thread so that a solver which never returns becomes an
/// observable answer (`Ans::Hang`) instead of freezing the harness. The helper is abandoned (it
/// cannot be cancelled); the run is declared inconclusive when too many pile up.
pub fn solve(which: Which, m: &LinearModel) -> Ans {
    solve_timeout(which, m, std::time::Duration::from_secs(hang_seconds()))
}

pub fn hang_seconds() -> u64 {
    std::env::var("VERIF_HANG_S").ok().and_then(|s| s.parse().ok()).unwrap_or(5)
}

pub fn solve_timeout(which: Which, m: &LinearModel, limit: std::time::Duration) -> Ans {
    let (tx, rx) = std::sync::mpsc::channel();
    let model = m.clone();
    let spawned = std::thread::Builder::new()
        .name(format!("solver-{}", which.name()))
        .stack_size(2 << 20)
        .spawn(move || {
            let r = std::panic::catch_unwind(std::panic::AssertUnwindSafe(|| solve_inline(which, &model)));
            let _ = tx.send(r.map_err(|p| {
                if let Some(s) = p.downcast_ref::<&str>() {
                    s.to_string()
                } else if let Some(s) = p.downcast_ref::<String>() {
                    s.clone()
                } else {
                    "panic".to_string()
                }
            }));
        });
    if spawned.is_err() {
        eprintln!("harness error: cannot spawn solver thread");
        std::process::exit(2);
    }
    match rx.recv_timeout(limit) {
        Ok(Ok(a)) => a,
        Ok(Err(msg)) => panic!("{msg}"),
        Err(_) => {
            let n = LEAKED.fetch_add(1, std::sync::atomic::Ordering::SeqCst) + 1;
            if n > 48 {
                eprintln!("harness error: {n} solver calls never returned; run is inconclusive");
                std::process::exit(2);
            }
            Ans::Hang
        }
    }
}

pub fn solve_inline(which: Which, m: &LinearModel) -> Ans {
    match which {
        Which::Milp => match solve_milp_lp_problem(m) {
            Ok(s) => Ans::Ok(from_milp(s)),
            Err(e) => map_err(e),
        },
        Which::Auto => match auto_solver(m) {
            Ok(s) => Ans::Ok(from_milp(s)),
            Err(e) => map_err(e),
        },
        Which::RealMicro => match solve_real_lp_problem_micro_lp(m) {
            Ok(s) => Ans::Ok(from_real(s)),
            Err(e) => map_err(e),
        },
        Which::Clarabel => match solve_real_lp_problem_clarabel(m) {
            Ok(s) => Ans::Ok(from_real(s)),
            Err(e) => map_err(e),
        },
        Which::Tableau => match solve_real_lp_problem_slow_simplex(m, 10_000) {
            Ok(s) => Ans::Ok(from_real(s)),
            Err(e) => map_err(e),
        },
        Which::MilpTimeZero | Which::MilpOneNode | Which::MilpThreeNodes => {
            let (time_limit, nodes) = match which {
                Which::MilpTimeZero => (Some(std::time::Duration::ZERO), None),
                Which::MilpOneNode => (None, Some(1)),
                _ => (None, Some(3)),
            };
            // the hook is thread-local and this runs on the helper thread of the call
            rooc::verif_hooks::set_milp_node_limit(nodes);
            let r = rooc::solve_milp_lp_problem_with(m, &rooc::MilpOptions { mip_gap: None, time_limit });
            rooc::verif_hooks::set_milp_node_limit(None);
            match r {
                Ok(s) => Ans::Ok(from_milp(s)),
                Err(e) => map_err(e),
            }
        }
    }
}

/// Checks a returned solution against the model it came from (C04's oracle, reused by C15/C16).
/// Returns `Err((signature, detail))` on the first discrepancy.
pub fn check_solution(case: &LinCase, which: &str, sol: &Sol, tol: f64) -> Result<(), (String, String)> {
    let n = case.n();
    // one value per model variable
    let mut want: Vec<&String> = case.vars.iter().map(|v| &v.0).collect();
    let mut got: Vec<&String> = sol.names.iter().collect();
    want.sort();
    got.sort();
    if want != got {
        return Err((
            format!("{which}:assignment-names"),
            format!("model variables {:?} but assignment has {:?}", case.vars.iter().map(|v| &v.0).collect::<Vec<_>>(), sol.names),
        ));
    }
    // value_of agrees with the assignment entry
    for (i, name) in sol.names.iter().enumerate() {
        match sol.by_name[i] {
            Some(v) if v == sol.values[i] => {}
            other => {
                return Err((
                    format!("{which}:value_of"),
                    format!("value_of({name}) = {other:?} but assignment entry is {}", sol.values[i]),
                ))
            }
        }
    }
    // values in model variable order
    let mut x = vec![0.0; n];
    for (i, (name, _)) in case.vars.iter().enumerate() {
        let k = sol.names.iter().position(|s| s == name).unwrap();
        x[i] = sol.values[k];
    }
    for (i, (name, dom)) in case.vars.iter().enumerate() {
        let v = x[i];
        if !v.is_finite() {
            return Err((format!("{which}:non-finite-value"), format!("{name} = {v}")));
        }
        let (lo, hi) = dom.bounds_f64();
        let t = tol * (1.0 + v.abs());
        if v < lo - t || v > hi + t {
            return Err((
                format!("{which}:domain-bound"),
                format!("{name} = {v} outside [{lo}, {hi}] of {dom:?}"),
            ));
        }
        if dom.is_discrete() && (v - v.round()).abs() > tol {
            return Err((format!("{which}:integrality"), format!("{name} = {v} in {dom:?}")));
        }
        if matches!(dom, Dom::Bool) && !(v.round() == 0.0 || v.round() == 1.0) {
            return Err((format!("{which}:bool-range"), format!("{name} = {v}")));
        }
    }
    for (ri, r) in case.rows.iter().enumerate() {
        let mut lhs = 0.0;
        let mut mag = 0.0;
        for (c, v) in r.coef.iter().zip(&x) {
            lhs += c * v;
            mag += (c * v).abs();
        }
        let t = tol * (1.0 + r.rhs.abs() + mag);
        if !r.rel.holds(lhs, r.rhs, t) {
            return Err((
                format!("{which}:row-violated"),
                format!("row {ri} ({:?}): lhs {lhs} {:?} rhs {} at x = {x:?}", r.name, r.rel, r.rhs),
            ));
        }
    }
    let obj = case.eval_obj(&x);
    let mag: f64 = case.obj.iter().zip(&x).map(|(c, v)| (c * v).abs()).sum::<f64>() + case.offset.abs();
    if (obj - sol.value).abs() > tol * (1.0 + mag) {
        return Err((
            format!("{which}:objective-mismatch"),
            format!("value() = {} but objective at returned point = {obj} (x = {x:?})", sol.value),
        ));
    }
    for (name, act) in &sol.constraints {
        if name.is_empty() {
            continue;
        }
        let mut ok = false;
        let mut seen = false;
        for r in case.rows.iter().filter(|r| &r.name == name) {
            seen = true;
            let lhs: f64 = r.coef.iter().zip(&x).map(|(c, v)| c * v).sum();
            let mag: f64 = r.coef.iter().zip(&x).map(|(c, v)| (c * v).abs()).sum();
            if (lhs - act).abs() <= tol * (1.0 + mag) {
                ok = true;
            }
        }
        if !seen {
            return Err((format!("{which}:activity-unknown-row"), format!("activity reported for {name:?} which is no row name")));
        }
        if !ok {
            return Err((format!("{which}:activity-mismatch"), format!("activity of {name:?} reported {act}, x = {x:?}")));
        }
    }
    Ok(())
}
