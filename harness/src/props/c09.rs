//! C09 — expressions parse with the documented precedence and associativity (DESIGN.md §5.9).

use crate::gen::model::{logic_exp, num_exp};
use crate::gen::text::{print, Op, Style};
use crate::oracle::rat::{big, Big};
use crate::oracle::refparse::{normalise, parse};
use crate::oracle::sem::{Env, SExp};
use crate::runner::{Outcome, Prop, Tier};
use indexmap::IndexMap;
use proptest::prelude::*;
use rooc::RoocParser;
use serde::{Deserialize, Serialize};

pub struct C09;

#[derive(Clone, Debug, Serialize, Deserialize)]
pub enum Case {
    /// operand_0 op_0 operand_1 ... without parentheses; `pre[i]`: 0 none, 1 `-`, 2 `not`, 3 `!`;
    /// `sym` bit i: symbolic spelling of operator i
    Flat { ops: Vec<u8>, pre: Vec<u8>, sym: u32 },
    /// a tree printed with a spelling style (parentheses only where required, or redundantly)
    Tree { exp: SExp, style: u64 },
    /// literal text (directed cases)
    Text(String),
}

const OPS: [Op; 9] = [
    Op::Add, Op::Sub, Op::Mul, Op::Div, Op::And, Op::Or, Op::Xor, Op::Implies, Op::Iff,
];
const NAMES: [&str; 44] = [
    "a", "b", "c", "d", "e", "x", "y", "notx", "andy", "orb", "minx", "inx", "xorq", "iffy",
    "impliesz", "asx",
    // a keyword followed by digits, or by a letter of the other case, is an identifier too
    "not1", "or2", "and3", "xor4", "iff5", "implies6", "min7", "max8", "in9", "for2", "as3", "let4", "truex", "falsey", "true1", "false0",
    "notA", "orB", "solve1", "where2",
    // a keyword followed by an underscore part is an (indexed) identifier as well
    "or_1", "in_k", "min_q", "not_p", "as_2", "true_t", "for_3", "and_g",
];

impl Case {
    pub fn text(&self) -> String {
        match self {
            Case::Flat { ops, pre, sym } => {
                let mut s = String::new();
                for i in 0..pre.len() {
                    if i > 0 {
                        let op = OPS[ops[i - 1] as usize % 9];
                        let t = if sym >> (i - 1) & 1 == 1 { op.symbol() } else { op.keyword() };
                        s.push_str(&format!(" {t} "));
                    }
                    s.push_str(match pre[i] % 4 {
                        1 => "-",
                        2 => "not ",
                        3 => "!",
                        _ => "",
                    });
                    s.push_str(NAMES[i % 5]);
                }
                s
            }
            Case::Tree { exp, style } => print(exp, &mut Style::from_bits(*style)),
            Case::Text(t) => t.clone(),
        }
    }
}

fn all_flat(k: usize) -> Vec<Case> {
    // every operator sequence x every prefix assignment for k operands
    let mut out = vec![];
    let nops = 9usize.pow((k - 1) as u32);
    let npre = 3usize.pow(k as u32);
    for o in 0..nops {
        let mut ops = vec![];
        let mut t = o;
        for _ in 0..k - 1 {
            ops.push((t % 9) as u8);
            t /= 9;
        }
        for p in 0..npre {
            let mut pre = vec![];
            let mut t = p;
            for _ in 0..k {
                pre.push((t % 3) as u8);
                t /= 3;
            }
            out.push(Case::Flat { ops: ops.clone(), pre, sym: (o as u32).wrapping_mul(2654435761) >> 7 });
        }
    }
    out
}

/// Every sequence of 2..=k operands joined by the operators that have a symbolic spelling, written
/// without a single blank (`a->b`, `a&&-b`, `a<->!b||c`): the symbols need no separator.
fn all_tight(k: usize) -> Vec<Case> {
    const SYM: [&str; 8] = ["+", "-", "*", "/", "&&", "||", "->", "<->"];
    const PRE: [&str; 3] = ["", "-", "!"];
    const OPERANDS: [&str; 4] = ["a", "b", "c", "d"];
    let mut out = vec![];
    for o in 0..8usize.pow((k - 1) as u32) {
        for p in 0..3usize.pow(k as u32) {
            let (mut to, mut tp) = (o, p);
            let mut s = String::new();
            for i in 0..k {
                if i > 0 {
                    s.push_str(SYM[to % 8]);
                    to /= 8;
                }
                s.push_str(PRE[tp % 3]);
                tp /= 3;
                s.push_str(OPERANDS[i % 4]);
            }
            out.push(Case::Text(s));
        }
    }
    out
}

fn directed() -> Vec<Case> {
    [
        "a -> b <-> c", "a <-> b -> c", "a -> b -> c", "a <-> b <-> c", "a implies b iff c",
        "2x", "2(x + 1)", "(a)(b)c", "a / 2x", "-2x", "2x * y", "2 3", "2 x", "(a + b)(c - d)",
        "2(a)(b)", "a - (b - c)", "a / (b * c)", "a - b - c", "a / b / c", "a / b * c",
        "not a and b", "!a && b || c", "not (a or b) xor c", "-a * -b", "a - -b", "a * -2",
        "notx and andy", "minx + inx", "orb or xorq", "iffy iff impliesz", "asx -> a",
        "a and b or c xor d", "a or b and c", "a xor b or c", "a xor b and c", "a + b * c - d / e",
        "a and b + c", "a + b and c", "not a + b", "- a and b",
        "abs { a - b } * 2", "min { a, b + c } - max { 2a, 3 }", "all { a, b or c } -> any { a, b }",
        "2.5x", "0.5(a + b)", "a -> b || c", "a <-> b && c",
        "a->b", "a ->b", "a-> b", "a->b->c", "a and b->c or d", "a->2b", "a->b_1", "a<->b", "a&&b||c", "a-b", "a->(b)", "a->!b",
        "a||b_1&&c", "a<->b_1->c", "2a->3b", "a->notx", "a&&not1", "a||or_1",
    ]
    .iter()
    .map(|s| Case::Text(s.to_string()))
    .collect()
}

fn grid(vars: &[String]) -> Vec<Env> {
    let vals = [0.0, 1.0, -1.0, 2.0];
    let n = vars.len();
    let total = vals.len().pow(n.min(5) as u32);
    let mut out = vec![];
    for i in 0..total {
        let mut t = i;
        let mut env = Env::new();
        for v in vars.iter().take(5) {
            env.insert(v.clone(), big(vals[t % 4]));
            t /= 4;
        }
        for v in vars.iter().skip(5) {
            env.insert(v.clone(), big(1.0));
        }
        out.push(env);
    }
    out
}

fn rooc_parse(expr: &str, vars: &[String]) -> Result<SExp, String> {
    let decl = if vars.is_empty() { "zz".to_string() } else { vars.join(", ") };
    let src = format!("min 0\ns.t.\n    {expr} <= 1\ndefine\n    {decl} as Boolean");
    let model = RoocParser::new(src).parse_and_transform(vec![], &IndexMap::new())?;
    if model.constraints().len() != 1 {
        return Err(format!("{} constraints instead of 1", model.constraints().len()));
    }
    Ok(SExp::from_rooc(model.constraints()[0].lhs()))
}

fn non_trivial(e: &SExp) -> bool {
    // >= 2 binary operators of different level, or same level with different associativity, or an
    // implicit multiplication / prefix next to an operator
    fn collect(e: &SExp, ops: &mut Vec<Op>, prefix: &mut usize) {
        let mut bin = |op: Op, a: &SExp, b: &SExp, ops: &mut Vec<Op>, prefix: &mut usize| {
            ops.push(op);
            collect(a, ops, prefix);
            collect(b, ops, prefix);
        };
        match e {
            SExp::Add(a, b) => bin(Op::Add, a, b, ops, prefix),
            SExp::Sub(a, b) => bin(Op::Sub, a, b, ops, prefix),
            SExp::Mul(a, b) => bin(Op::Mul, a, b, ops, prefix),
            SExp::Div(a, b) => bin(Op::Div, a, b, ops, prefix),
            SExp::Xor(a, b) => bin(Op::Xor, a, b, ops, prefix),
            SExp::Implies(a, b) => bin(Op::Implies, a, b, ops, prefix),
            SExp::Iff(a, b) => bin(Op::Iff, a, b, ops, prefix),
            SExp::And(v) if v.len() == 2 => bin(Op::And, &v[0], &v[1], ops, prefix),
            SExp::Or(v) if v.len() == 2 => bin(Op::Or, &v[0], &v[1], ops, prefix),
            SExp::Neg(a) | SExp::Not(a) => {
                *prefix += 1;
                collect(a, ops, prefix)
            }
            SExp::Abs(a) => collect(a, ops, prefix),
            SExp::Min(v) | SExp::Max(v) | SExp::And(v) | SExp::Or(v) => {
                for x in v {
                    collect(x, ops, prefix)
                }
            }
            SExp::Num(_) | SExp::Var(_) => {}
        }
    }
    let mut ops = vec![];
    let mut prefix = 0;
    collect(e, &mut ops, &mut prefix);
    let levels: std::collections::BTreeSet<u8> = ops.iter().map(|o| o.level()).collect();
    let mixed_assoc = ops.contains(&Op::Implies) && ops.contains(&Op::Iff);
    ops.len() >= 2 && (levels.len() >= 2 || mixed_assoc || ops.iter().any(|o| matches!(o, Op::Sub | Op::Div | Op::Implies)))
        || (prefix > 0 && !ops.is_empty())
}

impl Prop for C09 {
    type Case = Case;
    fn id(&self) -> &'static str {
        "C09"
    }
    fn strategy(&self, _tier: Tier) -> BoxedStrategy<Case> {
        let names: Vec<String> = NAMES.iter().map(|s| s.to_string()).collect();
        let bools = names.clone();
        let tree = prop_oneof![
            2 => num_exp(&names, &bools, 4, false),
            1 => logic_exp(&bools, 4),
            // mixed: logic operators over arithmetic operands and vice versa (the parser is untyped)
            2 => mixed_exp(&names, 5),
        ];
        prop_oneof![
            5 => (tree, any::<u64>()).prop_map(|(exp, style)| Case::Tree { exp, style }),
            2 => (proptest::collection::vec(0u8..9, 5..=11), any::<u32>(), any::<u64>()).prop_map(|(ops, sym, p)| {
                let k = ops.len() + 1;
                let pre = (0..k).map(|i| ((p >> (2 * i)) & 3) as u8).collect();
                Case::Flat { ops, pre, sym }
            }),
        ]
        .boxed()
    }
    fn budget(&self, tier: Tier) -> usize {
        match tier {
            Tier::Quick => 30_000,
            Tier::Thorough => 600_000,
        }
    }
    fn fixed_cases(&self, tier: Tier) -> Vec<Case> {
        let mut v = directed();
        let kmax = if tier == Tier::Quick { 4 } else { 5 };
        for k in 2..=kmax {
            v.extend(all_flat(k));
        }
        for k in 2..=kmax - 1 {
            v.extend(all_tight(k));
        }
        v
    }
    fn exhaustive_stratum(&self, tier: Tier) -> Option<String> {
        Some(format!(
            "all parenthesis-free operator sequences over the 9 binary operators with an optional prefix operator (none, -, not) on every operand, 2..={} operands; the same with symbolic operators and no blanks up to one operand fewer",
            if tier == Tier::Quick { 4 } else { 5 }
        ))
    }
    fn canon(&self, c: &Case) -> String {
        serde_json::to_string(&c.text()).unwrap()
    }
    fn rule(&self) -> String {
        "expression texts: (1) exhaustively every parenthesis-free sequence of 2-4 (thorough: 2-5) operands joined by any of the 9 binary operators, each operand with no prefix, '-' or 'not', operators spelled as keywords or symbols, and every sequence of 2-3 (thorough: 2-4) operands joined by the 8 symbolic operators with prefixes none, '-', '!' written without any blank; (2) random trees (arithmetic, logic and mixed, depth <= 5, abs/min/max/all/any blocks) printed with required or redundant parentheses, keyword or symbolic operators, implicit multiplication, over identifiers that include keyword-prefixed ones (notx, andy, orb, minx, inx, xorq, iffy, impliesz, asx); (3) random flat sequences of 6-12 operands; (4) a directed list. rooc's parse (lhs of a constraint after parse_and_transform) is compared with an independent precedence-climbing parser: by value at all assignments over {0,1,-1,2}^k (deciding) and structurally (reported as a label). Every text the reference accepts must be accepted. Non-trivial = >=2 binary operators of different level or of the shared implies/iff level, a non-associative operator repeated, or a prefix operator next to a binary one. Distinct = distinct text.".into()
    }
    fn check(&self, case: &Case) -> Outcome {
        let text = case.text();
        let reference = match parse(&text) {
            Ok(e) => normalise(&e),
            Err(e) => {
                return match case {
                    // the printer is the harness's own: its output must be in the reference language
                    Case::Tree { .. } | Case::Flat { .. } => Outcome::fail("harness:reference-rejects-generated-text", format!("{text}: {e}")),
                    Case::Text(_) => Outcome::Skip("reference rejects".into()),
                };
            }
        };
        if let Case::Tree { exp, .. } = case {
            if normalise_nary(&normalise(exp)) != normalise_nary(&reference) {
                return Outcome::fail(
                    "harness:printer-and-reference-parser-disagree",
                    format!("{text}\n tree {:?}\n ref  {:?}", normalise(exp), reference),
                );
            }
        }
        let mut vars = vec![];
        reference.vars(&mut vars);
        let got = match rooc_parse(&text, &vars) {
            Ok(e) => normalise(&e),
            Err(e) => {
                let first = e.lines().next().unwrap_or("").chars().take(80).collect::<String>();
                let kind = if vars.iter().any(|v| NAMES[7..].contains(&v.as_str())) { ":keyword-prefixed-identifier" } else { "" };
                return Outcome::fail(format!("rejected-well-formed-text{kind}"), format!("{text}\n{first}\n{e}"));
            }
        };
        let mut labels = vec![];
        let same_structure = normalise_nary(&got) == normalise_nary(&reference);
        if !same_structure {
            labels.push("structure-differs".to_string());
        }
        for env in grid(&vars) {
            let a: Option<Big> = reference.eval(&env);
            let b: Option<Big> = got.eval(&env);
            if let (Some(a), Some(b)) = (&a, &b) {
                if a != b {
                    return Outcome::fail(
                        "value-differs-from-documented-grouping",
                        format!(
                            "{text}\n at {}\n documented grouping {} = {a}\n rooc grouping       {} = {b}",
                            crate::gen::model::env_text(&env),
                            crate::gen::text::print_min(&reference),
                            crate::gen::text::print_min(&got)
                        ),
                    );
                }
            }
        }
        if !same_structure {
            // same value everywhere but another tree: only associative regrouping may do that
            labels.push("regrouped-associative".into());
        }
        Outcome::Pass { nontrivial: non_trivial(&reference), labels }
    }
}

/// n-ary and/or compared as left-nested binary
fn normalise_nary(e: &SExp) -> SExp {
    let n = normalise_nary;
    let fold = |v: &Vec<SExp>, and: bool| -> SExp {
        let mut it = v.iter().map(n);
        let first = it.next().unwrap_or(SExp::Num(if and { 1.0 } else { 0.0 }));
        it.fold(first, |acc, x| if and { SExp::And(vec![acc, x]) } else { SExp::Or(vec![acc, x]) })
    };
    match e {
        SExp::And(v) if v.len() != 2 => fold(v, true),
        SExp::Or(v) if v.len() != 2 => fold(v, false),
        SExp::And(v) => SExp::And(v.iter().map(n).collect()),
        SExp::Or(v) => SExp::Or(v.iter().map(n).collect()),
        SExp::Num(_) | SExp::Var(_) => e.clone(),
        SExp::Neg(a) => SExp::Neg(n(a).b()),
        SExp::Not(a) => SExp::Not(n(a).b()),
        SExp::Abs(a) => SExp::Abs(n(a).b()),
        SExp::Add(a, b) => SExp::Add(n(a).b(), n(b).b()),
        SExp::Sub(a, b) => SExp::Sub(n(a).b(), n(b).b()),
        SExp::Mul(a, b) => SExp::Mul(n(a).b(), n(b).b()),
        SExp::Div(a, b) => SExp::Div(n(a).b(), n(b).b()),
        SExp::Xor(a, b) => SExp::Xor(n(a).b(), n(b).b()),
        SExp::Implies(a, b) => SExp::Implies(n(a).b(), n(b).b()),
        SExp::Iff(a, b) => SExp::Iff(n(a).b(), n(b).b()),
        SExp::Min(v) => SExp::Min(v.iter().map(n).collect()),
        SExp::Max(v) => SExp::Max(v.iter().map(n).collect()),
    }
}

/// untyped trees: any operator over any operand
pub fn mixed_exp(names: &[String], depth: u32) -> BoxedStrategy<SExp> {
    let names = names.to_vec();
    let leaf = prop_oneof![
        6 => (0..names.len()).prop_map(move |i| SExp::Var(names[i].clone())),
        2 => prop_oneof![Just(2.0), Just(3.0), Just(0.5), Just(1.0), Just(0.0), Just(10.0), Just(2.25)].prop_map(SExp::Num),
    ];
    leaf.prop_recursive(depth, 40, 2, |inner| {
        prop_oneof![
            2 => (inner.clone(), inner.clone()).prop_map(|(a, b)| SExp::Add(a.b(), b.b())),
            2 => (inner.clone(), inner.clone()).prop_map(|(a, b)| SExp::Sub(a.b(), b.b())),
            2 => (inner.clone(), inner.clone()).prop_map(|(a, b)| SExp::Mul(a.b(), b.b())),
            2 => (inner.clone(), inner.clone()).prop_map(|(a, b)| SExp::Div(a.b(), b.b())),
            2 => (inner.clone(), inner.clone()).prop_map(|(a, b)| SExp::And(vec![a, b])),
            2 => (inner.clone(), inner.clone()).prop_map(|(a, b)| SExp::Or(vec![a, b])),
            2 => (inner.clone(), inner.clone()).prop_map(|(a, b)| SExp::Xor(a.b(), b.b())),
            2 => (inner.clone(), inner.clone()).prop_map(|(a, b)| SExp::Implies(a.b(), b.b())),
            2 => (inner.clone(), inner.clone()).prop_map(|(a, b)| SExp::Iff(a.b(), b.b())),
            1 => inner.clone().prop_map(|a| SExp::Neg(a.b())),
            1 => inner.prop_map(|a| SExp::Not(a.b())),
        ]
    })
    .boxed()
}
