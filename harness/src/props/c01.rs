//! C01 — linearization preserves the feasible set (DESIGN.md §5.1).

use crate::gen::lin::LinCase;
use crate::gen::model::{env_text, model_case, test_points, ModelCase, ModelParams};
use crate::oracle::rat::big;
use crate::props::lincheck::{compile, err_kind, extension, Extension};
use crate::runner::{Outcome, Prop, Tier};
use proptest::prelude::*;

pub struct C01;

pub const PARAMS: ModelParams = ModelParams {
    max_vars: 4,
    max_cons: 4,
    depth: 3,
    inexact: false,
    unbounded_decl: true,
    objective: false,
};

pub fn strategy() -> BoxedStrategy<ModelCase> {
    prop_oneof![
        3 => model_case(PARAMS),
            4 => crate::gen::model::model_case_biased(PARAMS),
        2 => model_case(ModelParams { max_vars: 2, max_cons: 3, depth: 4, ..PARAMS }),
        1 => model_case(ModelParams { inexact: true, ..PARAMS }),
        2 => model_case(ModelParams { unbounded_decl: false, max_vars: 3, ..PARAMS }),
    ]
    .boxed()
}

impl Prop for C01 {
    type Case = ModelCase;
    fn id(&self) -> &'static str {
        "C01"
    }
    fn strategy(&self, _tier: Tier) -> BoxedStrategy<ModelCase> {
        strategy()
    }
    fn budget(&self, tier: Tier) -> usize {
        match tier {
            Tier::Quick => 40_000,
            Tier::Thorough => 1_000_000,
        }
    }
    fn fixed_cases(&self, _tier: Tier) -> Vec<ModelCase> {
        directed_cases()
    }
    fn canon(&self, c: &ModelCase) -> String {
        serde_json::to_string(&c.text()).unwrap()
    }
    fn rule(&self) -> String {
        "source models built through Model::new from typed expression trees (numeric sort: constants, variables, + - neg, * and / by constants of both signs, abs, min, max, logic values as numbers; logic sort: Boolean variables, 0/1, not/and/or/xor/implies/iff) over 1-4 Boolean / integer-range / real / non-negative variables (bounded, half-bounded, unbounded), 1-4 constraints (affine rows, expression vs constant, expression vs expression, bare and compared logic assertions); each compiled model is judged at a test set of exact rational points (all discrete combinations, grid and random points of continuous variables, interpolated roots of every constraint along every continuous axis with their 1/16 neighbours, points just outside declared bounds): source-feasible iff extendable by some auxiliary assignment (exact DFS + bound propagation + Fourier-Motzkin over the auxiliaries). Non-trivial = compiled, contains a non-affine operator or a bare assertion, and the test set holds feasible and infeasible points. Distinct = distinct model text.".into()
    }
    fn assumptions(&self) -> Vec<String> {
        vec![
            "a source-feasible point that the exact linear rows reject is re-checked with rows relaxed by 1e-9 relative (discounts f64 rounding inside rooc)".into(),
            "a source-infeasible point counts as let in only when its source violation exceeds 1e-6".into(),
        ]
    }
    fn check(&self, case: &ModelCase) -> Outcome {
        check_feasible_set(case, 60)
    }
}

/// Hand-written interplay cases (bound propagation feeding operand pruning, sign-known abs,
/// derived ranges of discrete variables). They are ordinary cases for the oracle.
pub fn directed_cases() -> Vec<ModelCase> {
    use crate::gen::lin::Dom;
    use crate::gen::model::{SCons, SObj};
    use crate::oracle::sem::{Cmp, SExp};
    let v = SExp::var;
    let n = SExp::Num;
    let mul = |c: f64, e: SExp| SExp::Mul(SExp::Num(c).b(), e.b());
    let mk = |vars: Vec<(&str, Dom)>, cons: Vec<(SExp, Cmp, SExp)>| ModelCase {
        vars: vars.into_iter().map(|(a, b)| (a.to_string(), b)).collect(),
        cons: cons
            .into_iter()
            .map(|(lhs, rel, rhs)| SCons { name: String::new(), lhs, rel, rhs, bare: false })
            .collect(),
        obj: SObj::Satisfy,
        structural_logic: true,
        mark_all_used: false,
        point_seed: 1,
    };
    vec![
        // derived range of a Boolean used for pruning
        mk(vec![("b0", Dom::Bool)], vec![(SExp::Max(vec![mul(2.0, v("b0")), n(1.0)]), Cmp::Le, n(1.0))]),
        // derived range of an integer: 2*i0 <= 3 => i0 <= 1
        mk(
            vec![("i0", Dom::Int(0, 3)), ("x0", Dom::Real(Some(-4.0), Some(4.0)))],
            vec![
                (mul(2.0, v("i0")), Cmp::Le, n(3.0)),
                (SExp::Max(vec![v("i0"), v("x0")]), Cmp::Ge, n(2.0)),
            ],
        ),
        // bound only through another row
        mk(
            vec![("x0", Dom::Real(None, None)), ("x1", Dom::Real(Some(0.0), Some(3.0)))],
            vec![
                (v("x0"), Cmp::Le, SExp::Add(v("x1").b(), n(1.0).b())),
                (v("x0"), Cmp::Ge, SExp::Neg(v("x1").b())),
                (SExp::Abs(v("x0").b()), Cmp::Ge, n(1.0)),
            ],
        ),
        // nested negative scales around abs
        mk(
            vec![("x0", Dom::Real(Some(-3.0), Some(3.0)))],
            vec![(mul(-2.0, SExp::Sub(n(3.0).b(), SExp::Abs(v("x0").b()).b())), Cmp::Le, n(-2.0))],
        ),
    ]
}

pub fn check_feasible_set(case: &ModelCase, max_points: usize) -> Outcome {
    let lin = match compile(case) {
        Ok(m) => m,
        Err(e) => return Outcome::Skip(format!("rejected:{}", err_kind(&e))),
    };
    if case.has_constant_row_decided_by_rounding() {
        return Outcome::Skip("a constant row is decided by f64 rounding".into());
    }
    let lc = LinCase::from_rooc(&lin);
    let pts = test_points(case, max_points);
    let (mut nf, mut ni) = (0usize, 0usize);
    let mut fails: Vec<(String, String)> = vec![];
    for env in &pts {
        let Some(src) = case.src_feasible(env) else { continue };
        let ext = extension(&lc, &case.vars, env, None, false);
        let linf = !matches!(ext, Extension::No);
        if src {
            nf += 1;
        } else {
            ni += 1;
        }
        if src == linf {
            continue;
        }
        if src {
            // rounding discount
            if !matches!(extension(&lc, &case.vars, env, Some(1e-9), false), Extension::No) {
                continue;
            }
            if !fails.iter().any(|f| f.0.starts_with("cut-off")) {
                fails.push((
                    "cut-off".to_string(),
                    format!(
                        "source-feasible point {{{}}} has no auxiliary extension in\n{}\nsource:\n{}",
                        env_text(env),
                        lin,
                        case.text()
                    ),
                ));
            }
        } else {
            let viol = case.src_violation(env).unwrap_or_else(|| big(0.0));
            if viol <= big(1e-6) {
                continue;
            }
            if !fails.iter().any(|f| f.0.starts_with("let-in")) {
                fails.push((
                    "let-in".to_string(),
                    format!(
                        "source-infeasible point {{{}}} (violation {}) extends to a point of\n{}\nsource:\n{}",
                        env_text(env),
                        viol,
                        lin,
                        case.text()
                    ),
                ));
            }
        }
    }
    let mut labels = vec![];
    let mut ops = std::collections::BTreeMap::new();
    for c in &case.cons {
        c.lhs.count_ops(&mut ops);
        if !c.bare {
            c.rhs.count_ops(&mut ops);
        } else {
            *ops.entry("bare").or_default() += 1;
        }
    }
    for k in ops.keys() {
        labels.push(format!("op:{k}"));
    }
    let aux = lc.vars.iter().filter(|v| !case.vars.iter().any(|d| d.0 == v.0)).count();
    labels.push(format!("aux:{}", aux.min(9)));
    if nf > 0 && ni > 0 {
        labels.push("mixed-points".into());
    }
    Outcome::from_failures(fails, case.has_nonaffine() && nf > 0 && ni > 0, labels)
}
