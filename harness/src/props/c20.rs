//! C20 — shadow prices are the sensitivities of the optimum (DESIGN.md §5.20).

use crate::gen::lin::{Dom, LinCase, LinParams, Sense};
use crate::oracle::rat::{big, big_frac, solve_lp, Big, Verdict};
use crate::props::solvers::{solve, Ans, Which};
use crate::runner::{Outcome, Prop, Tier};
use num_traits::ToPrimitive;
use proptest::prelude::*;
use rooc::Clarabel;

pub struct C20;

const PARAMS: LinParams = LinParams {
    max_vars: 4,
    max_rows: 5,
    coef_range: 5,
    quarters: false,
    allow_discrete: false,
    allow_satisfy: false,
    allow_offset: true,
    exotic_names: false,
    continuous_only: true,
};

fn optimum(case: &LinCase) -> Option<Big> {
    match solve_lp(&case.to_problem()) {
        Verdict::Optimal { value, .. } => Some(value),
        _ => None,
    }
}

/// slope of the optimal value in the right-hand side of row `i`, if the value function is
/// differentiable there (same slope on both sides and at two step sizes)
fn slope(case: &LinCase, i: usize, base: &Big) -> Option<Big> {
    let mut slopes: Vec<Big> = vec![];
    for (num, den) in [(1i64, 64i64), (-1, 64), (1, 256), (-1, 256)] {
        let mut c = case.clone();
        let delta = big_frac(num, den);
        // exact perturbation of the f64 right-hand side
        let mut p = c.to_problem();
        p.rows[i].rhs = &p.rows[i].rhs + &delta;
        c.rows[i].rhs = f64::NAN; // not used below
        match solve_lp(&p) {
            Verdict::Optimal { value, .. } => slopes.push((value - base) / &delta),
            _ => return None,
        }
    }
    if slopes.iter().all(|s| *s == slopes[0]) {
        Some(slopes[0].clone())
    } else {
        None
    }
}

impl Prop for C20 {
    type Case = LinCase;
    fn id(&self) -> &'static str {
        "C20"
    }
    fn strategy(&self, _tier: Tier) -> BoxedStrategy<LinCase> {
        use crate::gen::lin::{LinRow, R};
        (2usize..=4, 2usize..=5)
            .prop_flat_map(|(nv, nr)| {
                let dom = prop_oneof![
                    5 => (-4i32..=2, 2i32..=8).prop_map(|(l, w)| Dom::Real(Some(l as f64), Some((l + w) as f64))),
                    2 => (1i32..=8).prop_map(|u| Dom::NonNeg(0.0, Some(u as f64))),
                    1 => Just(Dom::NonNeg(0.0, None)),
                    1 => Just(Dom::Real(None, None)),
                ];
                let coef = prop_oneof![1 => Just(0i32), 6 => -5i32..=5];
                (
                    proptest::collection::vec(dom, nv),
                    proptest::collection::vec((proptest::collection::vec(coef.clone(), nv), 0u8..3, 0i32..=3, 0u8..5), nr),
                    proptest::collection::vec(-5i32..=5, nv),
                    proptest::collection::vec(-2i32..=2, nv),
                    any::<bool>(),
                    -3i32..=3,
                )
            })
            .prop_map(|(doms, rows, obj, witness, max, offset)| {
                let vars: Vec<(String, Dom)> = doms.into_iter().enumerate().map(|(i, d)| (format!("x{i}"), d)).collect();
                let w: Vec<f64> = vars
                    .iter()
                    .zip(&witness)
                    .map(|((_, d), w)| {
                        let (lo, hi) = d.bounds_f64();
                        (*w as f64).max(lo).min(hi)
                    })
                    .collect();
                let rows = rows
                    .into_iter()
                    .enumerate()
                    .map(|(i, (coef, rel, slack, naming))| {
                        let mut coef: Vec<f64> = coef.iter().map(|c| *c as f64).collect();
                        if coef.iter().all(|c| *c == 0.0) {
                            coef[i % vars.len()] = 1.0;
                        }
                        let lhs: f64 = coef.iter().zip(&w).map(|(c, v)| c * v).sum();
                        let (rel, rhs) = match rel {
                            0 => (R::Le, lhs + slack as f64),
                            1 => (R::Ge, lhs - slack as f64),
                            _ => (R::Eq, lhs),
                        };
                        LinRow { name: if naming == 0 { String::new() } else { format!("r{i}") }, coef, rel, rhs }
                    })
                    .collect();
                LinCase {
                    vars,
                    rows,
                    obj: obj.iter().map(|c| *c as f64).collect(),
                    offset: offset as f64,
                    sense: if max { Sense::Max } else { Sense::Min },
                }
            })
            // the same LPs with the objective, or one row, in other units: a shadow price is a rate of
            // change, so it scales with the objective and inversely with the row (powers of two keep
            // the data exact)
            .prop_flat_map(|c| (Just(c), 0u8..8, any::<u16>(), 0u8..4, any::<u16>()))
            .prop_map(|(mut c, mode, pick, parallel, pick2)| {
                // two rows with the same coefficients and relation and different right-hand sides: the
                // looser one is not binding, its price is 0 whatever the tighter one reports
                if parallel == 0 && c.rows.len() >= 2 {
                    let i = pick2 as usize % c.rows.len();
                    let j = (i + 1 + (pick2 as usize >> 8) % (c.rows.len() - 1)) % c.rows.len();
                    if c.rows[i].rel != R::Eq {
                        let delta = 1.0 + (pick2 >> 12) as f64 % 3.0;
                        let looser = if c.rows[i].rel == R::Le { c.rows[i].rhs + delta } else { c.rows[i].rhs - delta };
                        let name = c.rows[j].name.clone();
                        c.rows[j] = LinRow { name, coef: c.rows[i].coef.clone(), rel: c.rows[i].rel, rhs: looser };
                    }
                }
                match mode {
                    0 => c.obj.iter_mut().for_each(|v| *v *= 128.0),
                    1 => c.obj.iter_mut().for_each(|v| *v *= 4096.0),
                    2 => c.obj.iter_mut().for_each(|v| *v /= 64.0),
                    3 if !c.rows.is_empty() => {
                        let i = pick as usize % c.rows.len();
                        c.rows[i].coef.iter_mut().for_each(|v| *v *= 256.0);
                        c.rows[i].rhs *= 256.0;
                    }
                    4 if !c.rows.is_empty() => {
                        let i = pick as usize % c.rows.len();
                        c.rows[i].coef.iter_mut().for_each(|v| *v /= 32.0);
                        c.rows[i].rhs /= 32.0;
                    }
                    _ => {}
                }
                c
            })
            .boxed()
    }
    fn budget(&self, tier: Tier) -> usize {
        match tier {
            Tier::Quick => 4_000,
            Tier::Thorough => 300_000,
        }
    }
    fn canon(&self, c: &LinCase) -> String {
        serde_json::to_string(&c.pretty()).unwrap()
    }
    fn rule(&self) -> String {
        "small continuous LPs (<=4 variables, <=5 rows, integer data, named and unnamed rows of all three relations, bounds as domains, min and max, offsets; objective or one row rescaled by a power of two in half of the cases) kept when the exact oracle certifies that the optimal value is a differentiable function of every row's right-hand side at the given data (same exact slope for steps +-1/64 and +-1/256: the situation of a unique non-degenerate optimum). solve_real_lp_problem_clarabel and ModelBuilder::solve_with(Clarabel).shadow_price must report for every named row that exact slope d(optimal value)/d(rhs) in the user's sense (1e-5 relative to the larger of the slope and the unit objective / row), about zero on that scale for inactive rows, no entry for unnamed rows and an entry for every named row. Non-trivial = at least two named rows with non-zero slope. Distinct = distinct model text.".into()
    }
    fn assumptions(&self) -> Vec<String> {
        vec!["cases whose value function has a kink at the data (degenerate or non-unique optimum) are skipped and counted".into()]
    }
    fn check(&self, case: &LinCase) -> Outcome {
        if case.rows.is_empty() || case.n() == 0 || case.sense == Sense::Satisfy {
            return Outcome::Skip("no rows / variables".into());
        }
        let Some(base) = optimum(case) else { return Outcome::Skip("not optimal".into()) };
        let mut slopes: Vec<Big> = vec![];
        for i in 0..case.rows.len() {
            match slope(case, i, &base) {
                Some(s) => slopes.push(s),
                None => return Outcome::Skip("value function not differentiable in some right-hand side".into()),
            }
        }
        let model = case.to_rooc();
        let sol = match solve(Which::Clarabel, &model) {
            Ans::Ok(s) => s,
            Ans::Other(_) => return Outcome::Skip("clarabel did not converge".into()),
            other => return Outcome::fail("clarabel-no-solution-for-optimal-model", format!("{other:?}\n{}", case.pretty())),
        };
        // the builder door
        let built = crate::props::c15::builder_of_pub(case).solve_with(Clarabel);
        // did compiling the builder model tighten a declared domain (bound inference from the rows)?
        let tightened = crate::props::c15::builder_of_pub(case)
            .linearize()
            .map(|l| {
                let lc = LinCase::from_rooc(&l);
                case.vars.iter().any(|(n, d)| lc.vars.iter().any(|(m, e)| m == n && e.bounds_f64() != d.bounds_f64()))
            })
            .unwrap_or(false);
        let mut fails: Vec<(String, String)> = vec![];
        let ctx = |s: String| format!("{s}\n{}\nreported prices: {:?}", case.pretty(), sol.shadow);
        let mut active = 0;
        for (i, r) in case.rows.iter().enumerate() {
            let want = slopes[i].to_f64().unwrap_or(f64::NAN);
            if want != 0.0 && !r.name.is_empty() {
                active += 1;
            }
            let got = sol.shadow.iter().find(|(n, _)| n == &r.name).map(|(_, v)| *v);
            if r.name.is_empty() {
                continue;
            }
            match got {
                None => fails.push(("named-row-has-no-shadow-price".into(), ctx(format!("row {:?}", r.name)))),
                Some(g) => {
                    // a price has the unit objective / row: the interior-point residual of a row
                    // that is not binding scales the same way, so "about zero" is measured against
                    // the largest objective coefficient over the largest coefficient of the row
                    let unit = case.obj.iter().fold(1.0f64, |m, v| m.max(v.abs())) / r.coef.iter().fold(0.0f64, |m, v| m.max(v.abs())).max(f64::MIN_POSITIVE).min(1.0);
                    let allowed = 1e-5 * want.abs().max(unit).max(1.0);
                    if (g - want).abs() > allowed {
                        let kind = if (g + want).abs() <= allowed { "opposite-sign" } else { "value" };
                        fails.push((
                            format!("shadow-price-differs-from-sensitivity:{kind}:{:?}:{:?}", case.sense, r.rel),
                            ctx(format!("row {:?}: reported {g}, exact d(opt)/d(rhs) = {want}", r.name)),
                        ));
                    }
                }
            }
            if let Ok(b) = &built {
                let via_builder = b.shadow_price(&r.name);
                let same = match (via_builder, got) {
                    (Some(a), Some(b)) => (a - b).abs() <= 1e-6 * a.abs().max(1.0),
                    (None, None) => true,
                    _ => false,
                };
                if !same {
                    let class = if tightened { ":compiled-domain-tightened-from-rows" } else { "" };
                    fails.push((format!("builder-shadow-price-differs{class}"), ctx(format!("row {:?}: builder {via_builder:?}, function {got:?}", r.name))));
                }
            }
        }
        if sol.shadow.iter().any(|(n, _)| n.is_empty()) {
            fails.push(("unnamed-row-has-a-shadow-price".into(), ctx(String::new())));
        }
        for (n, _) in &sol.shadow {
            if !case.rows.iter().any(|r| &r.name == n) {
                fails.push(("shadow-price-for-unknown-row".into(), ctx(n.clone())));
            }
        }
        let mut seen = std::collections::BTreeSet::new();
        fails.retain(|f| seen.insert(f.0.clone()));
        let _ = big(0.0);
        Outcome::from_failures(fails, active >= 2, vec![format!("active-named-rows:{}", active.min(4))])
    }
}
