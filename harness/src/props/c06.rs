//! C06 — data-driven constructs expand exactly (DESIGN.md §5.6).

use crate::gen::data::{data_prog, DataProg};
use crate::gen::lin::LinCase;
use crate::runner::{Outcome, Prop, Tier};
use indexmap::IndexMap;
use proptest::prelude::*;
use rooc::{Linearizer, RoocParser};

pub struct C06;

pub fn compile_text(src: &str) -> Result<(rooc::model_transformer::Model, LinCase), String> {
    let model = RoocParser::new(src.to_string()).parse_and_transform(vec![], &IndexMap::new())?;
    let lin = Linearizer::linearize(model.clone()).map_err(|e| format!("linearization: {e}"))?;
    Ok((model, LinCase::from_rooc(&lin)))
}

fn close(a: f64, b: f64) -> bool {
    a == b || (a - b).abs() <= 1e-9 * a.abs().max(b.abs()).max(1.0)
}

/// same variables, domains, objective and the same rows in the same order
pub fn same_in_order(a: &LinCase, b: &LinCase) -> Result<(), String> {
    if a.vars != b.vars {
        let (an, bn): (Vec<&String>, Vec<&String>) = (a.vars.iter().map(|v| &v.0).collect(), b.vars.iter().map(|v| &v.0).collect());
        if an != bn {
            return Err(format!("variable lists differ: {an:?} vs {bn:?}"));
        }
        let k = (0..a.n()).find(|&j| a.vars[j] != b.vars[j]).unwrap();
        return Err(format!("domain of {}: {:?} vs {:?}", a.vars[k].0, a.vars[k].1, b.vars[k].1));
    }
    if a.sense != b.sense || !close(a.offset, b.offset) || a.obj.iter().zip(&b.obj).any(|(x, y)| !close(*x, *y)) {
        return Err(format!("objective: {:?} {:?} {} vs {:?} {:?} {}", a.sense, a.obj, a.offset, b.sense, b.obj, b.offset));
    }
    if a.rows.len() != b.rows.len() {
        return Err(format!("{} rows vs {} rows", a.rows.len(), b.rows.len()));
    }
    for (i, (x, y)) in a.rows.iter().zip(&b.rows).enumerate() {
        if x.name != y.name {
            return Err(format!("row {i}: name {:?} vs {:?}", x.name, y.name));
        }
        if x.rel != y.rel || !close(x.rhs, y.rhs) || x.coef.iter().zip(&y.coef).any(|(p, q)| !close(*p, *q)) {
            return Err(format!("row {i} ({:?}): {:?} {:?} {} vs {:?} {:?} {}", x.name, x.coef, x.rel, x.rhs, y.coef, y.rel, y.rhs));
        }
    }
    Ok(())
}

impl Prop for C06 {
    type Case = DataProg;
    fn id(&self) -> &'static str {
        "C06"
    }
    fn strategy(&self, _tier: Tier) -> BoxedStrategy<DataProg> {
        data_prog()
    }
    fn budget(&self, tier: Tier) -> usize {
        match tier {
            Tier::Quick => 12_000,
            Tier::Thorough => 400_000,
        }
    }
    fn canon(&self, c: &DataProg) -> String {
        serde_json::to_string(&c.texts().0).unwrap()
    }
    fn rule(&self) -> String {
        "programs assembled from 1-3 independent pieces, each with its own where-data (integer / fractional arrays, nested arrays, graphs with and without weights), variable families and constructs: sum over inclusive / exclusive / empty ranges and 0..len(a) with coefficients a[i], i, constants and products, for-quantified constraint families with indexed names (c_i) and index arithmetic (x_{i + 1}), enumerate / enum with tuple destructuring and _, nested iterations with dependent ranges (j in i..C) and multi-index variables and names (y_i_j, r_i_j), edges / nodes / neigh_edges / neigh_edges_of with default weight 1, scoped max / min / avg / prod / any / all / xor blocks, zip, union / intersection / difference, declarations with iteration, objectives with sum. Each program is compared with the text obtained by evaluating these constructs by the documented semantics in the harness (literal names and coefficients, one constraint per iteration in iteration order, one declaration per variable): both go through parse_and_transform and Linearizer::linearize and must give the same variable list and domains, the same objective and offset, and row by row the same name, relation, coefficients and right-hand side (1e-9 relative, sums associate differently), or fail alike. Non-trivial = an iteration over >=2 elements and an indexed variable. Distinct = distinct program text.".into()
    }
    fn check(&self, case: &DataProg) -> Outcome {
        let (driven, unrolled) = case.texts();
        let a = compile_text(&driven);
        let b = compile_text(&unrolled);
        let ctx = |s: String| format!("{s}\ndata-driven:\n{driven}\nunrolled by hand:\n{unrolled}");
        let labels = case.labels();
        match (a, b) {
            (Ok((ma, la)), Ok((mb, lb))) => {
                let mut fails = vec![];
                if ma.constraints().len() != mb.constraints().len() {
                    fails.push((
                        "constraint-count-differs".to_string(),
                        ctx(format!("{} vs {} constraints", ma.constraints().len(), mb.constraints().len())),
                    ));
                } else {
                    for (i, (x, y)) in ma.constraints().iter().zip(mb.constraints()).enumerate() {
                        if x.name() != y.name() {
                            fails.push(("constraint-name-differs".to_string(), ctx(format!("constraint {i}: {:?} vs {:?}", x.name(), y.name()))));
                            break;
                        }
                    }
                }
                // the names themselves are part of the documented semantics (x_i with i = 2 is x_2)
                let expected = case.expected_names();
                if let Some((bad, _)) = la.vars.iter().find(|v| !v.0.starts_with('$') && !expected.contains(&v.0)) {
                    fails.push(("unexpected-variable-name".to_string(), ctx(format!("{bad:?} is not one of {expected:?}"))));
                }
                if let Err(d) = same_in_order(&la, &lb) {
                    fails.push(("expansion-differs-from-hand-unrolled".to_string(), ctx(d)));
                }
                let nontrivial = la.n() >= 2 && !la.rows.is_empty();
                Outcome::from_failures(fails, nontrivial, labels)
            }
            (Err(_), Err(_)) => Outcome::Pass { nontrivial: false, labels: vec!["both-fail".into()] },
            (Err(e), Ok(_)) => Outcome::fail("only-data-driven-text-fails", ctx(e)),
            (Ok(_), Err(e)) => Outcome::fail("only-unrolled-text-fails", ctx(e)),
        }
    }
}
