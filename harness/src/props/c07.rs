//! C07 — derived variable ranges are sound (DESIGN.md §5.7).

use crate::gen::lin::{Dom, LinCase};
use crate::gen::model::{env_text, model_case, num_exp, test_points, ModelCase, ModelParams, SCons, SObj};
use crate::oracle::rat::{big, Big};
use crate::oracle::sem::{Cmp, SExp};
use crate::props::lincheck::compile;
use crate::runner::{Outcome, Prop, Tier};
use num_traits::{Signed, ToPrimitive};
use proptest::prelude::*;
use serde::{Deserialize, Serialize};

pub struct C07;

#[derive(Clone, Debug, Serialize, Deserialize)]
pub struct Case {
    pub model: ModelCase,
    /// free expressions whose enclosure is asked at box points
    pub probes: Vec<SExp>,
}

const PARAMS: ModelParams = ModelParams {
    max_vars: 4,
    max_cons: 5,
    depth: 3,
    inexact: true,
    unbounded_decl: true,
    objective: false,
};

/// Chains, cycles and inexact coefficients: the propagation-specific part of the generator.
fn chain_model() -> BoxedStrategy<ModelCase> {
    chain_model_with(vec![1.0, 2.0, 3.0, 7.0, 0.1, 1.9, -1.0, -3.0, 0.5, 1.0 / 3.0])
}

/// the same chains and cycles with coefficients that differ by up to 18 orders of magnitude: the
/// propagation divides by them and subtracts nearly equal products, which is where rounding can
/// push a derived bound past a feasible value
fn magnitude_model() -> BoxedStrategy<ModelCase> {
    chain_model_with(vec![1e-9, 1e-6, 1e-3, 7e-5, 0.1, 1.0 / 3.0, 1.0, 3.0, 1e3, 1e6, 1e9, -1e-6, -1e-3, -1.0, -1e3, -1e6, 123456.789, 0.000123456789])
}

fn chain_model_with(coefs: Vec<f64>) -> BoxedStrategy<ModelCase> {
    let coef = (0..coefs.len()).prop_map(move |i| coefs[i]);
    let dom = prop_oneof![
        3 => Just(Dom::Real(None, None)),
        2 => Just(Dom::NonNeg(0.0, None)),
        2 => (-20i32..=0, 1i32..=40).prop_map(|(l, w)| Dom::Real(Some(l as f64), Some((l + w) as f64))),
        2 => (-9i32..=0, 1i32..=12).prop_map(|(l, w)| Dom::Int(l, l + w)),
        1 => Just(Dom::Int(-1000, 1000)),
        1 => Just(Dom::Bool),
    ];
    (
        proptest::collection::vec(dom, 2..=5),
        proptest::collection::vec((0usize..5, 0usize..5, coef.clone(), coef, -12i32..=12, prop_oneof![8 => 0u8..3, 2 => 3u8..5], 0u8..6), 1..=7),
        any::<u64>(),
        // feasibility bias: a witness point; two thirds of the models are made to hold at it
        (proptest::collection::vec(-6i32..=6, 5), 0u8..3),
    )
        .prop_map(|(doms, links, seed, (witness, bias))| {
            let vars: Vec<(String, Dom)> = doms
                .into_iter()
                .enumerate()
                .map(|(i, d)| (format!("v{i}"), d))
                .collect();
            let n = vars.len();
            let w: Vec<f64> = vars
                .iter()
                .zip(&witness)
                .map(|((_, d), w)| {
                    let (lo, hi) = d.bounds_f64();
                    (*w as f64).max(lo).min(hi)
                })
                .collect();
            let cons = links
                .into_iter()
                .map(|(a, b, ca, cb, k, rel, form)| {
                    let va = SExp::var(&vars[a % n].0);
                    let vb = SExp::var(&vars[b % n].0);
                    // strict rows are read strictly by the oracle (their feasible set is inside the one of
                    // the closed row, so every range that is sound for the closed row is sound here)
                    let rel = match rel {
                        0 => Cmp::Le,
                        1 => Cmp::Ge,
                        2 => Cmp::Eq,
                        3 => Cmp::Lt,
                        _ => Cmp::Gt,
                    };
                    // value of the left-hand side minus the non-constant part of the right-hand side
                    // at the witness, for the forms whose constant can simply be moved
                    let (wa, wb) = (w[a % n], w[b % n]);
                    let at_witness = match form {
                        0 => Some(ca * wa),
                        1 => Some(ca * wa - cb * wb),
                        2 => Some(ca * wa + cb * wb),
                        3 => Some((wa - wb).abs()),
                        4 => Some((ca * wa).max(cb * wb)),
                        _ => None,
                    };
                    let k = match (bias, at_witness) {
                        (1 | 2, Some(v)) => {
                            let slack = (k.abs() % 4) as f64 / 2.0;
                            let v = (v * 4.0).round() / 4.0;
                            match rel {
                                Cmp::Le | Cmp::Lt => v + slack + 0.25,
                                Cmp::Ge | Cmp::Gt => v - slack - 0.25,
                                Cmp::Eq => k as f64 / 2.0,
                            }
                        }
                        _ => k as f64 / 2.0,
                    };
                    let rel = if bias > 0 && rel == Cmp::Eq && form != 1 { Cmp::Le } else { rel };
                    let k = SExp::Num(k);
                    let ta = SExp::Mul(SExp::Num(ca).b(), va.clone().b());
                    let tb = SExp::Mul(SExp::Num(cb).b(), vb.clone().b());
                    let (lhs, rhs) = match form {
                        0 => (ta, k),                                   // single variable bound
                        1 => (ta, SExp::Add(tb.b(), k.b())),            // a*x rel b*y + k (chains, cycles)
                        2 => (SExp::Add(ta.b(), tb.b()), k),            // a*x + b*y rel k
                        3 => (SExp::Abs(SExp::Sub(va.b(), vb.b()).b()), k), // |x - y| rel k
                        4 => (SExp::Max(vec![ta, tb]), k),
                        _ => (SExp::Div(va.b(), SExp::Num(cb).b()), SExp::Min(vec![vb, k])),
                    };
                    SCons { name: String::new(), lhs, rel, rhs, bare: false }
                })
                .collect();
            ModelCase { vars, cons, obj: SObj::Satisfy, structural_logic: true, mark_all_used: true, point_seed: seed }
        })
        .boxed()
}

/// The slow two-variable cycle that exhausts the step limit: x >= y + d, y >= x + d in wide boxes.
fn slow_cycle() -> BoxedStrategy<ModelCase> {
    (1i32..=8, 100i32..=100_000, any::<u64>(), any::<bool>())
        .prop_map(|(d, w, seed, feasible_twist)| {
            let d = d as f64 / 8.0;
            let x = SExp::var("v0");
            let y = SExp::var("v1");
            let delta = if feasible_twist { -d } else { d };
            ModelCase {
                vars: vec![
                    ("v0".into(), Dom::Real(Some(0.0), Some(w as f64))),
                    ("v1".into(), Dom::Real(Some(0.0), Some(w as f64))),
                ],
                cons: vec![
                    SCons { name: String::new(), lhs: x.clone(), rel: Cmp::Ge, rhs: SExp::Add(y.clone().b(), SExp::Num(delta).b()), bare: false },
                    SCons { name: String::new(), lhs: y, rel: Cmp::Ge, rhs: SExp::Add(x.b(), SExp::Num(d).b()), bare: false },
                ],
                obj: SObj::Satisfy,
                structural_logic: true,
                mark_all_used: true,
                point_seed: seed,
            }
        })
        .boxed()
}

fn with_probes(m: BoxedStrategy<ModelCase>) -> BoxedStrategy<Case> {
    m.prop_flat_map(|model| {
        let bools: Vec<String> = model.vars.iter().filter(|v| v.1 == Dom::Bool).map(|v| v.0.clone()).collect();
        let nums: Vec<String> = model.vars.iter().filter(|v| v.1 != Dom::Bool).map(|v| v.0.clone()).collect();
        (Just(model), proptest::collection::vec(num_exp(&nums, &bools, 3, true), 0..=3))
    })
    .prop_map(|(model, probes)| Case { model, probes })
    .boxed()
}

fn contains(lo: f64, hi: f64, v: &Big) -> bool {
    // the published statement is "contains". Constants are folded in rounded f64 before the
    // analysis sees them, so a bound can sit a few units in the last place inside the exact one
    // (with allowance 0 one model in 1000 fails on the unchanged tree, with 1e-14 none in 120 000);
    // the allowance is 1e-11 relative, a hundred times below the analysis' own 1e-9 tolerance
    let t = big(std::env::var("VERIF_C07_TOL").ok().and_then(|s| s.parse::<f64>().ok()).unwrap_or(1e-11)) * (v.abs() + big(1.0));
    let lo_ok = lo == f64::NEG_INFINITY || (lo.is_finite() && big(lo) <= v + &t);
    let hi_ok = hi == f64::INFINITY || (hi.is_finite() && big(hi) >= v - &t);
    lo_ok && hi_ok
}

impl Prop for C07 {
    type Case = Case;
    fn id(&self) -> &'static str {
        "C07"
    }
    fn strategy(&self, _tier: Tier) -> BoxedStrategy<Case> {
        with_probes(
            prop_oneof![
                4 => model_case(PARAMS),
                5 => chain_model(),
                3 => magnitude_model(),
                1 => slow_cycle(),
            ]
            .boxed(),
        )
    }
    fn budget(&self, tier: Tier) -> usize {
        match tier {
            Tier::Quick => 20_000,
            Tier::Thorough => 600_000,
        }
    }
    fn canon(&self, c: &Case) -> String {
        serde_json::to_string(&format!("{} || probes {:?}", c.model.text(), c.probes.iter().map(crate::gen::text::print_min).collect::<Vec<_>>())).unwrap()
    }
    fn rule(&self) -> String {
        "C01 models plus propagation-specific models (chains and cycles a*x rel b*y + k over 2-5 variables with coefficients 1,2,3,7,0.1,1.9,1/3 and negative ones, and the same shapes with coefficients from 1e-9 to 1e9 (ill-conditioned propagation), |x-y| and max/min/division links, infinite and integer declared ranges, Boolean variables, strict rows (< and >, read strictly), contradictory rows, and the slow two-variable cycle x >= y + d, y >= x + d in boxes up to 1e5 wide that exhausts the 10000-step limit). (1) at every source-feasible point of the test set every interval returned by the analysis hook and every published domain of the compiled model contains the variable's value; (2) for generated probe expressions and points of the derived box (the test points that lie inside it) the derived enclosure contains the exact value, is never NaN and has lower <= upper; (3) the same holds when the step limit was reached or a contradiction was detected. Non-trivial = some derived interval strictly tighter than declared and a feasible point within 1/16 of a derived bound, or the step-limit / contradiction flag set. Distinct = distinct model text.".into()
    }
    fn assumptions(&self) -> Vec<String> {
        vec!["containment is checked with a 1e-11 relative allowance (stated weakening of the literal 'contains': rooc folds constants in rounded f64 before the analysis, which moves bounds by units in the last place)".into()]
    }
    fn check(&self, case: &Case) -> Outcome {
        let m = &case.model;
        let model = m.to_rooc();
        let derived = rooc::verif_hooks::analyze_bounds(model.domain(), model.constraints());
        let vars = derived.variables();
        let mut labels = vec![];
        if derived.reached_iteration_limit() {
            labels.push("step-limit".to_string());
        }
        if derived.detected_infeasible() {
            labels.push("contradiction-detected".to_string());
        }
        let mut fails: Vec<(String, String)> = vec![];
        for (name, (lo, hi)) in &vars {
            if lo.is_nan() || hi.is_nan() {
                fails.push(("nan-variable-bound".into(), format!("{name}: [{lo}, {hi}]\n{}", m.text())));
            }
        }
        let published = compile(m).ok().map(|l| LinCase::from_rooc(&l));
        let pts = test_points(m, 60);
        let mut tighter = false;
        for (name, dom) in &m.vars {
            if let Some((lo, hi)) = vars.get(name) {
                let (dl, dh) = dom.bounds_f64();
                if *lo > dl || *hi < dh {
                    tighter = true;
                }
            }
        }
        let mut near = false;
        let mut feasible = 0;
        for env in &pts {
            let src = m.src_feasible(env);
            if src == Some(true) {
                feasible += 1;
                for (name, _) in &m.vars {
                    let v = &env[name];
                    if let Some((lo, hi)) = vars.get(name) {
                        if !contains(*lo, *hi, v) && !fails.iter().any(|f| f.0 == "derived-range-excludes-feasible-value") {
                            fails.push((
                                "derived-range-excludes-feasible-value".into(),
                                format!("{name} = {v} at feasible {{{}}} but derived range is [{lo}, {hi}] (limit={}, contradiction={})\n{}",
                                    env_text(env), derived.reached_iteration_limit(), derived.detected_infeasible(), m.text()),
                            ));
                        }
                        let vf = v.to_f64().unwrap_or(0.0);
                        if (vf - lo).abs() <= 1.0 / 16.0 || (vf - hi).abs() <= 1.0 / 16.0 {
                            near = true;
                        }
                    }
                    if let Some(lc) = &published {
                        if let Some((_, d)) = lc.vars.iter().find(|x| &x.0 == name) {
                            let (lo, hi) = d.bounds_f64();
                            if !contains(lo, hi, v) && !fails.iter().any(|f| f.0 == "published-range-excludes-feasible-value") {
                                fails.push((
                                    "published-range-excludes-feasible-value".into(),
                                    format!("{name} = {v} at feasible {{{}}} but the compiled model publishes {d:?}\n{}", env_text(env), m.text()),
                                ));
                            }
                        }
                    }
                }
            }
            // enclosure of probe expressions (and of the model's own sub-expressions) at box points
            let in_box = m.vars.iter().all(|(name, _)| match vars.get(name) {
                Some((lo, hi)) => {
                    let v = &env[name];
                    (lo.is_finite() || *lo == f64::NEG_INFINITY)
                        && (hi.is_finite() || *hi == f64::INFINITY)
                        && (*lo == f64::NEG_INFINITY || big(*lo) <= *v)
                        && (*hi == f64::INFINITY || big(*hi) >= *v)
                }
                None => false,
            });
            if !in_box {
                continue;
            }
            let mut exps: Vec<&SExp> = case.probes.iter().collect();
            for c in &m.cons {
                exps.push(&c.lhs);
                if !c.bare {
                    exps.push(&c.rhs);
                }
            }
            for e in exps {
                let Some(val) = e.eval(env) else { continue };
                let (lo, hi) = derived.bounds_of(&e.to_rooc(true));
                if lo.is_nan() || hi.is_nan() {
                    if !fails.iter().any(|f| f.0 == "nan-enclosure") {
                        fails.push(("nan-enclosure".into(), format!("bounds_of({}) = [{lo}, {hi}]\n{}", crate::gen::text::print_min(e), m.text())));
                    }
                    continue;
                }
                if lo > hi && !fails.iter().any(|f| f.0 == "inverted-enclosure") {
                    fails.push(("inverted-enclosure".into(), format!("bounds_of({}) = [{lo}, {hi}]\n{}", crate::gen::text::print_min(e), m.text())));
                }
                if !contains(lo, hi, &val) && !fails.iter().any(|f| f.0 == "enclosure-excludes-value") {
                    fails.push((
                        "enclosure-excludes-value".into(),
                        format!("{} = {val} at box point {{{}}} but bounds_of = [{lo}, {hi}]\n{}", crate::gen::text::print_min(e), env_text(env), m.text()),
                    ));
                }
            }
        }
        let _ = feasible;
        let flagged = derived.reached_iteration_limit() || derived.detected_infeasible();
        if tighter {
            labels.push("tightened".into());
        }
        Outcome::from_failures(fails, (tighter && near) || flagged, labels)
    }
}
