//! C13 — standard-form conversion preserves the problem (DESIGN.md §5.13).

use crate::gen::lin::{lin_case, Dom, LinCase, LinParams, LinRow, Sense, R};
use crate::oracle::rat::{big, solve_lp, solve_sys, Big, BigSys, Ext, Problem, Rel, Row, Verdict};
use crate::runner::{Outcome, Prop, Tier};
use num_traits::{Signed, Zero};
use proptest::prelude::*;

pub struct C13;

pub const PARAMS: LinParams = LinParams {
    max_vars: 5,
    max_rows: 5,
    coef_range: 5,
    quarters: true,
    allow_discrete: false,
    allow_satisfy: false,
    allow_offset: true,
    exotic_names: false,
    continuous_only: true,
};

pub struct Std {
    pub vars: Vec<String>,
    pub obj: Vec<f64>,
    pub rows: Vec<(Vec<f64>, f64)>,
    pub flip: bool,
    pub offset: f64,
}

pub fn standardize(case: &LinCase) -> Result<Std, String> {
    let s = case.to_rooc().into_standard_form().map_err(|e| e.to_string())?;
    Ok(Std {
        vars: s.verif_variables(),
        obj: s.verif_objective(),
        rows: s.verif_rows(),
        flip: s.verif_flip(),
        offset: s.verif_offset(),
    })
}

impl Std {
    /// the standard form as an exact problem: min c.z s.t. A z = b, z >= 0
    pub fn problem(&self) -> Problem {
        let n = self.vars.len();
        let mut p = Problem::new(n);
        for j in 0..n {
            p.lo[j] = Some(big(0.0));
            p.obj[j] = big(self.obj[j]);
        }
        for (coef, rhs) in &self.rows {
            let mut c: Vec<Big> = coef.iter().map(|v| big(*v)).collect();
            c.resize(n, big(0.0));
            p.rows.push(Row { coef: c, rel: Rel::Eq, rhs: big(*rhs) });
        }
        p
    }
    /// objective of the original frame at a standard point
    pub fn user_objective(&self, z: &[Big]) -> Big {
        let mut v = big(0.0);
        for (c, zj) in self.obj.iter().zip(z) {
            v += big(*c) * zj;
        }
        (if self.flip { -v } else { v }) + big(self.offset)
    }
    /// maps a standard point back to the original variables (`v = $pv - $mv`)
    pub fn map_back(&self, case: &LinCase, z: &[Big]) -> Option<Vec<Big>> {
        let pos = |name: &str| self.vars.iter().position(|v| v == name);
        case.vars
            .iter()
            .map(|(name, _)| match (pos(&format!("$p{name}")), pos(&format!("$m{name}")), pos(name)) {
                (Some(p), Some(m), _) => Some(&z[p] - &z[m]),
                (_, _, Some(k)) => Some(z[k].clone()),
                _ => None,
            })
            .collect()
    }
}

fn feasible_points(case: &LinCase, extra: u64) -> Vec<Vec<Big>> {
    // vertices under a few objectives, their midpoints
    let mut p = case.to_problem();
    let n = p.n;
    let mut pts: Vec<Vec<Big>> = vec![];
    let mut seed = extra | 1;
    for _ in 0..6 {
        for j in 0..n {
            seed ^= seed << 13;
            seed ^= seed >> 7;
            seed ^= seed << 17;
            p.obj[j] = big(((seed >> 20) % 7) as f64 - 3.0);
        }
        p.maximize = seed & 1 == 1;
        if let Verdict::Optimal { x, .. } = solve_lp(&p) {
            if !pts.contains(&x) {
                pts.push(x);
            }
        }
    }
    let k = pts.len();
    for i in 0..k {
        for j in i + 1..k {
            let mid: Vec<Big> = pts[i].iter().zip(&pts[j]).map(|(a, b)| (a + b) / big(2.0)).collect();
            pts.push(mid);
        }
    }
    pts
}

impl Prop for C13 {
    type Case = LinCase;
    fn id(&self) -> &'static str {
        "C13"
    }
    fn strategy(&self, _tier: Tier) -> BoxedStrategy<LinCase> {
        prop_oneof![
            6 => lin_case(PARAMS),
            // tiny right-hand sides around the sign test of the conversion
            1 => (lin_case(PARAMS), prop_oneof![Just(-1e-7), Just(-3e-6), Just(1e-7), Just(-0.0)]).prop_map(|(mut c, t)| {
                if let Some(r) = c.rows.first_mut() {
                    r.rhs = t;
                }
                c
            }),
        ]
        .boxed()
    }
    fn budget(&self, tier: Tier) -> usize {
        match tier {
            Tier::Quick => 30_000,
            Tier::Thorough => 200_000,
        }
    }
    fn canon(&self, c: &LinCase) -> String {
        serde_json::to_string(&c.pretty()).unwrap()
    }
    fn rule(&self) -> String {
        "continuous linear models (free, non-negative, bounded, half-bounded and fixed variables in any interleaving, <= >= = rows with right-hand sides of both signs and zero, zero coefficients, zero and duplicated rows, min and max, offsets; one stratum with right-hand sides of magnitude 1e-7) converted with into_standard_form and read through the guarded accessors. Oracle (exact rationals): every right-hand side >= 0; forward - for original-feasible points (exact LP vertices under random objectives and their midpoints) some non-negative completion of the slack/surplus columns satisfies A z = b with the declared variables mapped by name (v, or $pv - $mv for split variables) and the standard objective (after the recorded flip and offset) equals the original objective there; backward - vertices of the standard form map back to original-feasible points with the same objective; both problems have the same exact verdict and optimum. Non-trivial = a free and a bounded variable and two row kinds, original feasible. Distinct = distinct model text.".into()
    }
    fn check(&self, case: &LinCase) -> Outcome {
        if case.sense == Sense::Satisfy || !case.is_continuous() {
            return Outcome::Skip("not a continuous min/max model".into());
        }
        let std = match standardize(case) {
            Ok(s) => s,
            Err(e) => return Outcome::fail("standard-form-rejected", e),
        };
        let ctx = |s: String| format!("{s}\nmodel: {}\nstandard variables: {:?}", case.pretty(), std.vars);
        let mut fails: Vec<(String, String)> = vec![];
        for (i, (coef, rhs)) in std.rows.iter().enumerate() {
            if *rhs < 0.0 {
                fails.push(("negative-right-hand-side".into(), ctx(format!("row {i}: {coef:?} = {rhs}"))));
                break;
            }
            if coef.len() != std.vars.len() {
                fails.push(("row-length".into(), ctx(format!("row {i} has {} coefficients", coef.len()))));
            }
        }
        if std.obj.len() != std.vars.len() {
            fails.push(("objective-length".into(), ctx(format!("{} vs {}", std.obj.len(), std.vars.len()))));
            return Outcome::Multi(fails);
        }
        if std.flip != (case.sense == Sense::Max) {
            fails.push(("flip-flag".into(), ctx(format!("flip = {} for {:?}", std.flip, case.sense))));
        }
        let sp = std.problem();
        let op = case.to_problem();
        // same verdict and optimum
        let (vo, vs) = (solve_lp(&op), solve_lp(&sp));
        match (&vo, &vs) {
            (Verdict::Infeasible, Verdict::Infeasible) | (Verdict::Unbounded, Verdict::Unbounded) => {}
            (Verdict::Optimal { value: a, .. }, Verdict::Optimal { x, .. }) => {
                let b = std.user_objective(x);
                if *a != b {
                    fails.push(("optimum-differs".into(), ctx(format!("original {a}, standard form (user frame) {b}"))));
                }
            }
            (a, b) => fails.push((
                "verdict-differs".into(),
                ctx(format!("original {}, standard form {}", crate::props::c05::verdict_name(a), crate::props::c05::verdict_name(b))),
            )),
        }
        // forward
        let pos = |name: &str| std.vars.iter().position(|v| v == name);
        let pts = feasible_points(case, case.rows.len() as u64 * 7919 + case.n() as u64);
        for x in &pts {
            if !op.is_feasible(x) {
                continue;
            }
            // fixed part of z from x, free part = all other columns
            let n = std.vars.len();
            let mut fixed: Vec<Option<Big>> = vec![None; n];
            let mut split: Vec<(usize, usize, Big)> = vec![];
            let mut ok = true;
            for (i, (name, _)) in case.vars.iter().enumerate() {
                match (pos(&format!("$p{name}")), pos(&format!("$m{name}")), pos(name)) {
                    (Some(p), Some(m), _) => split.push((p, m, x[i].clone())),
                    (_, _, Some(k)) => fixed[k] = Some(x[i].clone()),
                    _ => {
                        fails.push(("variable-missing-from-standard-form".into(), ctx(name.clone())));
                        ok = false;
                    }
                }
            }
            if !ok {
                break;
            }
            // canonical split: p = max(x, 0), m = max(-x, 0)
            for (p, m, v) in &split {
                if v.is_negative() {
                    fixed[*p] = Some(big(0.0));
                    fixed[*m] = Some(-v.clone());
                } else {
                    fixed[*p] = Some(v.clone());
                    fixed[*m] = Some(big(0.0));
                }
            }
            if fixed.iter().flatten().any(|v| v.is_negative()) {
                fails.push(("non-negative-variable-takes-negative-value".into(), ctx(format!("{x:?}"))));
                break;
            }
            let free: Vec<usize> = (0..n).filter(|j| fixed[*j].is_none()).collect();
            let mut sys = BigSys { n: free.len(), lo: vec![Some(big(0.0)); free.len()], hi: vec![None; free.len()], int: vec![false; free.len()], rows: vec![] };
            let mut infeasible_row = None;
            for (ri, (coef, rhs)) in std.rows.iter().enumerate() {
                let mut b = big(*rhs);
                for j in 0..n {
                    if let Some(v) = &fixed[j] {
                        b -= big(coef[j]) * v;
                    }
                }
                let c: Vec<Big> = free.iter().map(|&j| big(coef[j])).collect();
                if c.iter().all(|v| v.is_zero()) {
                    if !b.is_zero() {
                        infeasible_row = Some(ri);
                    }
                } else {
                    sys.rows.push(Row { coef: c, rel: Rel::Eq, rhs: b });
                }
            }
            let completes = infeasible_row.is_none() && matches!(solve_sys(&sys, None), Ext::Feasible(_));
            if !completes {
                fails.push((
                    "feasible-point-has-no-standard-counterpart".into(),
                    ctx(format!("x = {x:?} is feasible for the original but no slack/surplus completion satisfies A z = b (row {infeasible_row:?})")),
                ));
                break;
            }
            // objective: slack columns must cost nothing, so any completion has the same value
            if free.iter().any(|&j| std.obj[j] != 0.0) {
                fails.push(("slack-column-in-objective".into(), ctx(format!("{:?}", std.obj))));
                break;
            }
            let mut z = vec![big(0.0); n];
            for j in 0..n {
                if let Some(v) = &fixed[j] {
                    z[j] = v.clone();
                }
            }
            let (a, b) = (op.eval_obj(x), std.user_objective(&z));
            if a != b {
                fails.push(("objective-differs-at-mapped-point".into(), ctx(format!("x = {x:?}: original {a}, standard {b}"))));
                break;
            }
        }
        // backward: standard vertices map to original-feasible points
        let mut q = sp.clone();
        let mut seed = 0x1234567u64 + std.vars.len() as u64;
        for _ in 0..6 {
            for j in 0..q.n {
                seed ^= seed << 13;
                seed ^= seed >> 7;
                seed ^= seed << 17;
                q.obj[j] = big(((seed >> 20) % 5) as f64);
            }
            if let Verdict::Optimal { x: z, .. } = solve_lp(&q) {
                match std.map_back(case, &z) {
                    None => {
                        fails.push(("variable-missing-from-standard-form".into(), ctx(String::new())));
                        break;
                    }
                    Some(x) => {
                        if !op.is_feasible(&x) {
                            fails.push((
                                "standard-point-maps-to-infeasible-original-point".into(),
                                ctx(format!("z = {z:?} -> x = {x:?}")),
                            ));
                            break;
                        }
                        if op.eval_obj(&x) != std.user_objective(&z) {
                            fails.push(("objective-differs-at-mapped-back-point".into(), ctx(format!("z = {z:?}"))));
                            break;
                        }
                    }
                }
            }
        }
        let has_free = case.vars.iter().any(|v| matches!(v.1, Dom::Real(None, None)));
        let has_bounded = case.vars.iter().any(|v| matches!(v.1, Dom::Real(Some(_), _) | Dom::Real(_, Some(_)) | Dom::NonNeg(_, Some(_))));
        let kinds: std::collections::BTreeSet<u8> = case.rows.iter().map(|r: &LinRow| match r.rel { R::Le => 0, R::Ge => 1, R::Eq => 2 }).collect();
        let nontrivial = has_free && has_bounded && kinds.len() >= 2 && !matches!(vo, Verdict::Infeasible);
        Outcome::from_failures(fails, nontrivial, vec![format!("verdict:{}", crate::props::c05::verdict_name(&vo))])
    }
}
